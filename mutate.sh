#!/bin/bash
# mutate.sh <patch.diff> <ID> [tier] [--tests pkg]: apply a patch to a scratch copy of $VERIF_REPO (default /repo),
# optionally run the repository tests of one package there, run the check against the copy, remove the copy.
# Prints the check's verdict; exit code = exit code of the check.
cd "$(dirname "$0")"
. ./env.sh
PATCH=$(readlink -f "$1"); ID=$2; TIER=${3:-quick}
SRC=${VERIF_REPO:-/repo}
D=$(mktemp -d /tmp/vmut.XXXXXX)
trap 'rm -rf "$D"; rm -rf "$VERIF_ROOT/.build/$(echo -n "$D/repo" | md5sum | cut -c1-8)"' EXIT
mkdir -p "$D/repo"
(cd "$SRC" && git ls-files -z | xargs -0 cp --parents -t "$D/repo") || exit 2
(cd "$D/repo" && patch -p1 -s < "$PATCH") || { echo "mutate.sh: patch does not apply" >&2; exit 2; }
if [ "$4" = "--tests" ]; then
  (cd "$D/repo" && go test -vet=off -count=1 $5 2>&1 | tail -5)
fi
VERIF_EVIDENCE_DIR="$D/evidence" VERIF_REPO="$D/repo" ./check.sh "$ID" "$TIER" 2>&1 | grep -E "VIOLATION|KNOWN|violations=|error" | head -8
exit ${PIPESTATUS[0]}
