package zzvsched

import (
	"sync/atomic"
	"unsafe"
)

// Mutex replaces sync.Mutex.  Lock is a scheduling point; Unlock is applied
// immediately (a pure release commutes with every other thread's operations up
// to the owner's next visible operation).
type Mutex struct {
	owner int32 // 0 free, else thread id + 1
	hb    uint64
}

//go:norace
func (m *Mutex) Lock() {
	t := enter(true)
	t.op = opLock
	t.mu = m
	t.rw = nil
	t.point()
	t.mu = nil
	raceAcquire(unsafe.Pointer(m))
	if yieldWhileHolding {
		t.op = opYield
		t.point()
	}
}

// yieldWhileHolding (set by the generated zz_features.go when the code under test calls TryLock): a thread
// that has just acquired a mutex yields once, so that another thread's TryLock can find the mutex held.
var yieldWhileHolding bool

//go:norace
func (m *Mutex) TryLock() bool {
	t := enter(false)
	if t == nil {
		return true
	}
	t.op = opAtomic
	t.obj = &m.hb
	t.point()
	if m.owner != 0 {
		return false
	}
	m.owner = int32(t.ID + 1)
	raceAcquire(unsafe.Pointer(m))
	return true
}

//go:norace
func (m *Mutex) Unlock() {
	t := enter(false)
	if t == nil {
		return
	}
	if m.owner == 0 {
		panic("sync: unlock of unlocked mutex")
	}
	raceRelease(unsafe.Pointer(m))
	m.owner = 0
	rr.touch(t, &m.hb, 13)
	if rr.cfg.YieldOnRelease {
		t.op = opYield
		t.point()
	}
}

// RWMutex replaces sync.RWMutex.  As in the runtime, Lock first ANNOUNCES the writer (one step) and then
// waits for the readers to leave (a second step); from the announcement on, new RLock calls wait - so a
// goroutine that read-locks recursively deadlocks when a writer announces itself in between.
type RWMutex struct {
	owner   int32
	readers int32
	wwait   int32 // writers that have announced themselves and wait for the readers to leave
	hb      uint64
	rsem    byte
	wsem    byte
}

//go:norace
func (m *RWMutex) Lock() {
	t := enter(true)
	t.op = opYield // the announcement is a scheduling point of its own
	t.point()
	m.wwait++
	rr.touch(t, &m.hb, 15)
	t.op = opLock
	t.mu = nil
	t.rw = m
	t.point()
	t.rw = nil
	raceAcquire(unsafe.Pointer(&m.rsem))
	raceAcquire(unsafe.Pointer(&m.wsem))
	if yieldWhileHolding {
		t.op = opYield
		t.point()
	}
}

// TryLock / TryRLock never block: they fail when the lock is held or a writer has announced itself.
//
//go:norace
func (m *RWMutex) TryLock() bool {
	t := enter(false)
	if t == nil {
		return true
	}
	t.op = opAtomic
	t.obj = &m.hb
	t.point()
	if m.owner != 0 || m.readers != 0 || m.wwait != 0 {
		return false
	}
	m.owner = int32(t.ID + 1)
	raceAcquire(unsafe.Pointer(&m.rsem))
	raceAcquire(unsafe.Pointer(&m.wsem))
	return true
}

//go:norace
func (m *RWMutex) TryRLock() bool {
	t := enter(false)
	if t == nil {
		return true
	}
	t.op = opAtomic
	t.obj = &m.hb
	t.point()
	if m.owner != 0 || m.wwait != 0 {
		return false
	}
	m.readers++
	raceAcquire(unsafe.Pointer(&m.rsem))
	return true
}

//go:norace
func (m *RWMutex) Unlock() {
	t := enter(false)
	if t == nil {
		return
	}
	if m.owner == 0 {
		panic("sync: Unlock of unlocked RWMutex")
	}
	raceRelease(unsafe.Pointer(&m.rsem))
	m.owner = 0
	rr.touch(t, &m.hb, 13)
	if rr.cfg.YieldOnRelease {
		t.op = opYield
		t.point()
	}
}

//go:norace
func (m *RWMutex) RLock() {
	t := enter(true)
	t.op = opRLock
	t.rw = m
	t.mu = nil
	t.point()
	t.rw = nil
	raceAcquire(unsafe.Pointer(&m.rsem))
}

//go:norace
func (m *RWMutex) RUnlock() {
	t := enter(false)
	if t == nil {
		return
	}
	if m.readers <= 0 {
		panic("sync: RUnlock of unlocked RWMutex")
	}
	raceReleaseMerge(unsafe.Pointer(&m.wsem))
	m.readers--
	rr.touch(t, &m.hb, 14)
}

// RLocker is not used by the repository; present for completeness.
func (m *RWMutex) RLocker() interface {
	Lock()
	Unlock()
} {
	return rlocker{m}
}

type rlocker struct{ m *RWMutex }

func (r rlocker) Lock()   { r.m.RLock() }
func (r rlocker) Unlock() { r.m.RUnlock() }

// WaitGroup replaces sync.WaitGroup.  Add (any delta) and Wait are scheduling
// points; Done is a pure release.
type WaitGroup struct {
	n  int
	hb uint64
	// as in the real WaitGroup, misuse is shown to the race detector: the first Add from zero is modelled as
	// a read, the first blocked Wait as a write of sema ("Add from zero must happen before Wait")
	sema    byte
	waiters int
}

//go:norace
func (w *WaitGroup) Add(delta int) {
	t := enter(false)
	if t == nil {
		return
	}
	if delta < 0 {
		w.release(t, delta)
		return
	}
	t.op = opWGAdd
	t.wg = w
	t.point()
	t.wg = nil
	if w.n == 0 && delta > 0 {
		wgSemaRead(&w.sema)
	}
	w.n += delta
}

//go:norace
func (w *WaitGroup) release(t *Thread, delta int) {
	raceReleaseMerge(unsafe.Pointer(w))
	w.n += delta
	if w.n < 0 {
		panic("sync: negative WaitGroup counter")
	}
	rr.touch(t, &w.hb, 16)
}

//go:norace
func (w *WaitGroup) Done() {
	t := enter(false)
	if t == nil {
		return
	}
	w.release(t, -1)
}

//go:norace
func (w *WaitGroup) Wait() {
	t := enter(true)
	blocked := w.n != 0
	if blocked {
		if w.waiters == 0 {
			wgSemaWrite(&w.sema)
		}
		w.waiters++
	}
	t.op = opWGWait
	t.wg = w
	t.point()
	t.wg = nil
	if blocked {
		w.waiters-- // no closure here: closures inside //go:norace functions are instrumented
	}
	raceAcquire(unsafe.Pointer(w))
}

// Once replaces sync.Once.
type Once struct {
	done    bool
	running bool
	hb      uint64
}

//go:norace
func (o *Once) Do(f func()) {
	t := enter(true)
	t.op = opOnce
	t.once = o
	t.point()
	t.once = nil
	if !t.resRun {
		raceAcquire(unsafe.Pointer(o))
		return
	}
	defer o.finish()
	f()
}

//go:norace
func (o *Once) finish() {
	// also runs when f panics or the goroutine is torn down
	o.running = false
	o.done = true
	if rr != nil && !rr.aborting && cur != nil {
		raceRelease(unsafe.Pointer(o))
		rr.touch(cur, &o.hb, 17)
	}
}

// ------------------------------------------------------------------ atomics

// AtomicValue replaces atomic.Value.
type AtomicValue struct {
	v  atomic.Value
	hb uint64
}

//go:norace
func atomicPoint(cell *uint64) {
	t := enter(false)
	if t == nil {
		return
	}
	t.op = opAtomic
	t.obj = cell
	t.point()
}

func (a *AtomicValue) Load() any {
	atomicPoint(&a.hb)
	return a.v.Load()
}

func (a *AtomicValue) Store(x any) {
	atomicPoint(&a.hb)
	a.v.Store(x)
}

func (a *AtomicValue) Swap(x any) any {
	atomicPoint(&a.hb)
	return a.v.Swap(x)
}

func (a *AtomicValue) CompareAndSwap(o, n any) bool {
	atomicPoint(&a.hb)
	return a.v.CompareAndSwap(o, n)
}

// hbCells gives every atomically accessed word a happens-before cell.  Owned by
// the scheduler goroutine?  No: atomics are applied by the thread, so the table
// is a plain slice searched linearly (a handful of words per execution).
type addrCell struct {
	p  unsafe.Pointer
	hb uint64
}

var addrCells []*addrCell

//go:norace
func cellOf(p unsafe.Pointer) *uint64 {
	for _, c := range addrCells {
		if c.p == p {
			return &c.hb
		}
	}
	c := &addrCell{p: p}
	addrCells = append(addrCells, c)
	return &c.hb
}

func LoadInt32(p *int32) int32 {
	atomicPoint(cellOf(unsafe.Pointer(p)))
	return atomic.LoadInt32(p)
}

func StoreInt32(p *int32, v int32) {
	atomicPoint(cellOf(unsafe.Pointer(p)))
	atomic.StoreInt32(p, v)
}

func AddInt32(p *int32, d int32) int32 {
	atomicPoint(cellOf(unsafe.Pointer(p)))
	return atomic.AddInt32(p, d)
}

func CompareAndSwapInt32(p *int32, o, n int32) bool {
	atomicPoint(cellOf(unsafe.Pointer(p)))
	return atomic.CompareAndSwapInt32(p, o, n)
}

func LoadUint64(p *uint64) uint64 {
	atomicPoint(cellOf(unsafe.Pointer(p)))
	return atomic.LoadUint64(p)
}

func StoreUint64(p *uint64, v uint64) {
	atomicPoint(cellOf(unsafe.Pointer(p)))
	atomic.StoreUint64(p, v)
}

// AddUint64 is used by the repository only for process-wide name counters
// (router names, chunk tags) whose values never influence behaviour; it is
// performed atomically but is not a scheduling point.
func AddUint64(p *uint64, d uint64) uint64 {
	return atomic.AddUint64(p, d)
}

func LoadInt64(p *int64) int64 {
	atomicPoint(cellOf(unsafe.Pointer(p)))
	return atomic.LoadInt64(p)
}

func StoreInt64(p *int64, v int64) {
	atomicPoint(cellOf(unsafe.Pointer(p)))
	atomic.StoreInt64(p, v)
}

func AddInt64(p *int64, d int64) int64 {
	atomicPoint(cellOf(unsafe.Pointer(p)))
	return atomic.AddInt64(p, d)
}

// ------------------------------------------------------------------ typed atomics (sync/atomic since go1.19)

type AtomicInt32 struct {
	v  int32
	hb uint64
}

func (a *AtomicInt32) Load() int32   { atomicPoint(&a.hb); return atomic.LoadInt32(&a.v) }
func (a *AtomicInt32) Store(x int32) { atomicPoint(&a.hb); atomic.StoreInt32(&a.v, x) }
func (a *AtomicInt32) Add(d int32) int32 {
	atomicPoint(&a.hb)
	return atomic.AddInt32(&a.v, d)
}
func (a *AtomicInt32) Swap(x int32) int32 { atomicPoint(&a.hb); return atomic.SwapInt32(&a.v, x) }
func (a *AtomicInt32) CompareAndSwap(o, n int32) bool {
	atomicPoint(&a.hb)
	return atomic.CompareAndSwapInt32(&a.v, o, n)
}

type AtomicInt64 struct {
	v  int64
	hb uint64
}

func (a *AtomicInt64) Load() int64   { atomicPoint(&a.hb); return atomic.LoadInt64(&a.v) }
func (a *AtomicInt64) Store(x int64) { atomicPoint(&a.hb); atomic.StoreInt64(&a.v, x) }
func (a *AtomicInt64) Add(d int64) int64 {
	atomicPoint(&a.hb)
	return atomic.AddInt64(&a.v, d)
}
func (a *AtomicInt64) Swap(x int64) int64 { atomicPoint(&a.hb); return atomic.SwapInt64(&a.v, x) }
func (a *AtomicInt64) CompareAndSwap(o, n int64) bool {
	atomicPoint(&a.hb)
	return atomic.CompareAndSwapInt64(&a.v, o, n)
}

type AtomicUint32 struct {
	v  uint32
	hb uint64
}

func (a *AtomicUint32) Load() uint32   { atomicPoint(&a.hb); return atomic.LoadUint32(&a.v) }
func (a *AtomicUint32) Store(x uint32) { atomicPoint(&a.hb); atomic.StoreUint32(&a.v, x) }
func (a *AtomicUint32) Add(d uint32) uint32 {
	atomicPoint(&a.hb)
	return atomic.AddUint32(&a.v, d)
}
func (a *AtomicUint32) Swap(x uint32) uint32 { atomicPoint(&a.hb); return atomic.SwapUint32(&a.v, x) }
func (a *AtomicUint32) CompareAndSwap(o, n uint32) bool {
	atomicPoint(&a.hb)
	return atomic.CompareAndSwapUint32(&a.v, o, n)
}

type AtomicUint64 struct {
	v  uint64
	hb uint64
}

func (a *AtomicUint64) Load() uint64   { atomicPoint(&a.hb); return atomic.LoadUint64(&a.v) }
func (a *AtomicUint64) Store(x uint64) { atomicPoint(&a.hb); atomic.StoreUint64(&a.v, x) }

// Add is used for counters whose value may matter: a scheduling point (unlike the package-level AddUint64).
func (a *AtomicUint64) Add(d uint64) uint64 {
	atomicPoint(&a.hb)
	return atomic.AddUint64(&a.v, d)
}
func (a *AtomicUint64) Swap(x uint64) uint64 { atomicPoint(&a.hb); return atomic.SwapUint64(&a.v, x) }
func (a *AtomicUint64) CompareAndSwap(o, n uint64) bool {
	atomicPoint(&a.hb)
	return atomic.CompareAndSwapUint64(&a.v, o, n)
}

type AtomicBool struct {
	v  int32
	hb uint64
}

func b2i(b bool) int32 {
	if b {
		return 1
	}
	return 0
}
func (a *AtomicBool) Load() bool   { atomicPoint(&a.hb); return atomic.LoadInt32(&a.v) != 0 }
func (a *AtomicBool) Store(x bool) { atomicPoint(&a.hb); atomic.StoreInt32(&a.v, b2i(x)) }
func (a *AtomicBool) Swap(x bool) bool {
	atomicPoint(&a.hb)
	return atomic.SwapInt32(&a.v, b2i(x)) != 0
}
func (a *AtomicBool) CompareAndSwap(o, n bool) bool {
	atomicPoint(&a.hb)
	return atomic.CompareAndSwapInt32(&a.v, b2i(o), b2i(n))
}

type AtomicPointer[T any] struct {
	v  atomic.Pointer[T]
	hb uint64
}

func (a *AtomicPointer[T]) Load() *T   { atomicPoint(&a.hb); return a.v.Load() }
func (a *AtomicPointer[T]) Store(x *T) { atomicPoint(&a.hb); a.v.Store(x) }
func (a *AtomicPointer[T]) Swap(x *T) *T {
	atomicPoint(&a.hb)
	return a.v.Swap(x)
}
func (a *AtomicPointer[T]) CompareAndSwap(o, n *T) bool {
	atomicPoint(&a.hb)
	return a.v.CompareAndSwap(o, n)
}

// ------------------------------------------------------------------ sync.Cond

// Cond replaces sync.Cond.
type Cond struct {
	L interface {
		Lock()
		Unlock()
	}
	waiters []*condWaiter
	hb      uint64
}

type condWaiter struct{ woken bool }

// NewCond replaces sync.NewCond.
func NewCond(l interface {
	Lock()
	Unlock()
}) *Cond {
	return &Cond{L: l}
}

//go:norace
func (c *Cond) Wait() {
	w := &condWaiter{}
	c.waiters = append(c.waiters, w)
	c.L.Unlock()
	Block(&c.hb, func() bool { return w.woken })
	raceAcquire(unsafe.Pointer(c))
	c.L.Lock()
}

//go:norace
func (c *Cond) Signal() {
	atomicPoint(&c.hb)
	raceReleaseMerge(unsafe.Pointer(c))
	if len(c.waiters) > 0 {
		c.waiters[0].woken = true
		c.waiters = c.waiters[1:]
	}
}

//go:norace
func (c *Cond) Broadcast() {
	atomicPoint(&c.hb)
	raceReleaseMerge(unsafe.Pointer(c))
	for _, w := range c.waiters {
		w.woken = true
	}
	c.waiters = nil
}

// wgSemaRead / wgSemaWrite are plain memory accesses the race detector instruments (runtime.RaceRead would
// report without a usable stack): they make "Add from zero concurrent with Wait" visible as in the real
// WaitGroup.  Outside race builds they are harmless.

//go:noinline
//verif:instrumented
func wgSemaRead(p *byte) byte { return *p }

//go:noinline
//verif:instrumented
func wgSemaWrite(p *byte) { *p++ }
