//go:build !race

package zzvsched

import "unsafe"

// gate is the hand-off primitive between the scheduler and a thread.
type gate struct{ c chan struct{} }

func newGate() gate    { return gate{c: make(chan struct{}, 1)} }
func (g gate) signal() { g.c <- struct{}{} }
func (g gate) wait()   { <-g.c }
func (g gate) close()  {}

func raceAcquire(p unsafe.Pointer)      {}
func raceRelease(p unsafe.Pointer)      {}
func raceReleaseMerge(p unsafe.Pointer) {}
func raceRead(p unsafe.Pointer)         {}
func raceWrite(p unsafe.Pointer)        {}

// RaceMode reports whether the binary was built with -race.
const RaceMode = false
