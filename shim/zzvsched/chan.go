package zzvsched

import (
	"unsafe"
)

// Channel model.  Channel *types* are untouched by the rewriting pass; every
// operation on them goes through the generic functions below.  Buffered data
// lives in the real channel (so len/cap stay native); closed-ness, enabledness
// and unbuffered rendezvous are decided by the scheduler.  A thread parked at a
// channel operation stands for a goroutine parked on (or about to park on) the
// channel's wait queue: when several are eligible the scheduler's choice covers
// every order in which they could have queued.

type chanRef struct {
	p     unsafe.Pointer
	lenFn func() int
	cap   int
}

type chanState struct {
	closed bool
	hb     uint64
}

type selCase struct {
	ref  chanRef
	send bool
	box  any
}

func (r *run) chanState(ref chanRef) *chanState {
	cs := r.chans[ref.p]
	if cs == nil {
		cs = &chanState{}
		r.chans[ref.p] = cs
	}
	return cs
}

//go:norace
func refOf[T any](ch chan T) chanRef {
	if ch == nil {
		return chanRef{}
	}
	return chanRef{p: *(*unsafe.Pointer)(unsafe.Pointer(&ch)), lenFn: func() int { return len(ch) }, cap: cap(ch)}
}

//go:norace
func refOfR[T any](ch <-chan T) chanRef {
	if ch == nil {
		return chanRef{}
	}
	return chanRef{p: *(*unsafe.Pointer)(unsafe.Pointer(&ch)), lenFn: func() int { return len(ch) }, cap: cap(ch)}
}

//go:norace
func refOfS[T any](ch chan<- T) chanRef {
	if ch == nil {
		return chanRef{}
	}
	return chanRef{p: *(*unsafe.Pointer)(unsafe.Pointer(&ch)), lenFn: func() int { return len(ch) }, cap: cap(ch)}
}

// pendingPartner finds another parked thread that could complete an operation
// on channel p in the opposite direction (wantSend: we look for a sender).
func (r *run) partners(p unsafe.Pointer, wantSend bool, self *Thread, out []*Thread) []*Thread {
	for _, u := range r.active {
		if u == self || u.state != stPending || u.completed {
			continue
		}
		switch u.op {
		case opSend:
			if wantSend && u.ref.p == p {
				out = append(out, u)
			}
		case opRecv:
			if !wantSend && u.ref.p == p {
				out = append(out, u)
			}
		case opSelect:
			for i := range u.cases {
				if u.cases[i].ref.p == p && u.cases[i].send == wantSend {
					out = append(out, u)
					break
				}
			}
		}
	}
	return out
}

func (r *run) hasPartner(p unsafe.Pointer, wantSend bool, self *Thread) bool {
	var buf [4]*Thread
	return len(r.partners(p, wantSend, self, buf[:0])) > 0
}

func (r *run) recvReady(ref chanRef, self *Thread) bool {
	if ref.p == nil {
		return false
	}
	if cs := r.chans[ref.p]; cs != nil && cs.closed {
		return true
	}
	if ref.lenFn() > 0 {
		return true
	}
	if ref.cap == 0 {
		return r.hasPartner(ref.p, true, self)
	}
	return false
}

func (r *run) sendReady(ref chanRef, self *Thread) bool {
	if ref.p == nil {
		return false
	}
	if cs := r.chans[ref.p]; cs != nil && cs.closed {
		return true // will panic, like the runtime
	}
	if ref.cap > 0 {
		return ref.lenFn() < ref.cap
	}
	return r.hasPartner(ref.p, false, self)
}

func (r *run) caseReady(c *selCase, self *Thread) bool {
	if c.send {
		return r.sendReady(c.ref, self)
	}
	return r.recvReady(c.ref, self)
}

// complete marks partner u's pending operation on channel p as done.
func (r *run) complete(u *Thread, p unsafe.Pointer, uSends bool, box any) (ubox any) {
	if u.op == opSelect {
		for i := range u.cases {
			if u.cases[i].ref.p == p && u.cases[i].send == uSends {
				u.resIdx = i
				ubox = u.cases[i].box
				break
			}
		}
	} else {
		ubox = u.box
	}
	if !uSends {
		u.resBox = box
		u.resOK = true
	}
	u.resDirect = true
	u.completed = true
	u.op = opStart
	return ubox
}

func (r *run) pickPartner(p unsafe.Pointer, wantSend bool, self *Thread) *Thread {
	var buf [8]*Thread
	ps := r.partners(p, wantSend, self, buf[:0])
	if len(ps) == 0 {
		return nil
	}
	k := 0
	if len(ps) > 1 {
		k = r.choose(len(ps), nil, true, 0)
	}
	return ps[k]
}

func (r *run) applySend(t *Thread, ref chanRef, box any) {
	cs := r.chanState(ref)
	if cs.closed || ref.cap > 0 {
		// the thread performs the real (non-blocking, or panicking) send
		r.touch(t, &cs.hb, 9)
		return
	}
	u := r.pickPartner(ref.p, false, t)
	if u == nil {
		panic(ErrMachinery{"send granted without receiver"})
	}
	r.complete(u, ref.p, false, box)
	t.resDirect = true
	h := mix(t.hb, u.hb, cs.hb)
	t.hb, u.hb, cs.hb = h, mix(h, 1, 1), h
	r.conflict++
}

func (r *run) applyRecv(t *Thread, ref chanRef) {
	cs := r.chanState(ref)
	if ref.lenFn() > 0 || cs.closed || ref.cap > 0 {
		r.touch(t, &cs.hb, 10)
		return
	}
	u := r.pickPartner(ref.p, true, t)
	if u == nil {
		panic(ErrMachinery{"recv granted without sender"})
	}
	t.resBox = r.complete(u, ref.p, true, nil)
	t.resOK = true
	t.resDirect = true
	h := mix(t.hb, u.hb, cs.hb)
	t.hb, u.hb, cs.hb = h, mix(h, 1, 1), h
	r.conflict++
}

func (r *run) applySelect(t *Thread) {
	var ready [16]int
	rd := ready[:0]
	for i := range t.cases {
		if r.caseReady(&t.cases[i], t) {
			rd = append(rd, i)
		}
	}
	if len(rd) == 0 {
		if !t.hasDflt {
			panic(ErrMachinery{"select granted with no ready case"})
		}
		t.resIdx = -1
		// a failed poll still observes the channels
		for i := range t.cases {
			if t.cases[i].ref.p != nil {
				cs := r.chanState(t.cases[i].ref)
				r.touch(t, &cs.hb, 11)
			}
		}
		return
	}
	k := 0
	if len(rd) > 1 {
		k = r.choose(len(rd), nil, true, 0)
	}
	i := rd[k]
	t.resIdx = i
	t.hb = mix(t.hb, uint64(i), 0x5E1)
	c := &t.cases[i]
	if c.send {
		r.applySend(t, c.ref, c.box)
	} else {
		r.applyRecv(t, c.ref)
	}
}

// ---------------------------------------------------------------- thread side

//go:norace
func realSend[T any](ch chan<- T, v T) {
	select {
	case ch <- v:
	default:
		fatal("shim inconsistency: granted send would block")
	}
}

//go:norace
func realRecv[T any](ch <-chan T) (v T, ok bool) {
	select {
	case v, ok = <-ch:
	default:
		fatal("shim inconsistency: granted receive would block")
	}
	return
}

// Send replaces `ch <- v`.
//
//go:norace
func Send[T any](ch chan<- T, v T) {
	t := enter(true)
	t.op = opSend
	t.ref = refOfS(ch)
	if t.ref.cap == 0 && t.ref.p != nil {
		t.box = v
		raceReleaseMerge(t.ref.p) // the value is published to whoever completes the rendezvous
	}
	t.point()
	t.box = nil
	if t.resDirect {
		t.resDirect = false
		raceAcquire(t.ref.p) // an unbuffered receive happens before the send completes
		return
	}
	realSend(ch, v)
}

// Recv replaces `<-ch`.
//
//go:norace
func Recv[T any](ch <-chan T) T {
	v, _ := Recv2(ch)
	return v
}

// Recv2 replaces `v, ok := <-ch`.
//
//go:norace
func Recv2[T any](ch <-chan T) (T, bool) {
	t := enter(true)
	ref := refOfR(ch)
	if ref.cap == 0 && ref.p != nil {
		// "arrived at the receive" and "parked on the channel" are distinct instants: a
		// non-blocking send placed between them finds no receiver (lost wake-up)
		t.op = opYield
		t.point()
	}
	t.op = opRecv
	t.ref = ref
	if t.ref.cap == 0 && t.ref.p != nil {
		raceReleaseMerge(t.ref.p)
	}
	t.point()
	if t.resDirect {
		t.resDirect = false
		b := t.resBox
		t.resBox = nil
		raceAcquire(t.ref.p)
		v, _ := b.(T)
		return v, t.resOK
	}
	return realRecv(ch)
}

// Close replaces close(ch).
//
//go:norace
func Close[T any](ch chan<- T) {
	t := enter(false)
	if t == nil {
		return
	}
	t.op = opClose
	t.ref = refOfS(ch)
	t.point()
	close(ch)
}

// SelCase is one communication clause of a rewritten select statement.
type SelCase interface {
	desc() selCase
	done(t *Thread)
}

// RecvH holds the result of a receive clause.
type RecvH[T any] struct {
	ch <-chan T
	V  T
	OK bool
}

// NewRecv evaluates the channel operand of a receive clause.
func NewRecv[T any](ch <-chan T) *RecvH[T] { return &RecvH[T]{ch: ch} }

//go:norace
func (h *RecvH[T]) desc() selCase { return selCase{ref: refOfR(h.ch)} }

//go:norace
func (h *RecvH[T]) done(t *Thread) {
	if t.resDirect {
		t.resDirect = false
		b := t.resBox
		t.resBox = nil
		h.V, _ = b.(T)
		h.OK = t.resOK
		return
	}
	h.V, h.OK = realRecv(h.ch)
}

// SendH holds the operands of a send clause.
type SendH[T any] struct {
	ch chan<- T
	v  T
}

// NewSend evaluates channel and value of a send clause.
func NewSend[T any](ch chan<- T, v T) *SendH[T] { return &SendH[T]{ch: ch, v: v} }

//go:norace
func (h *SendH[T]) desc() selCase {
	c := selCase{ref: refOfS(h.ch), send: true}
	if c.ref.cap == 0 {
		c.box = h.v
	}
	return c
}

//go:norace
func (h *SendH[T]) done(t *Thread) {
	if t.resDirect {
		t.resDirect = false
		return
	}
	realSend(h.ch, h.v)
}

// Select replaces a select statement: it returns the index of the clause that
// was executed, or -1 for default.
//
//go:norace
func Select(hasDefault bool, cs ...SelCase) int {
	t := enter(true)
	t.cases = t.cases[:0]
	arrive := false
	for _, c := range cs {
		d := c.desc()
		t.cases = append(t.cases, d)
		if !d.send && d.ref.cap == 0 && d.ref.p != nil {
			arrive = true
		}
	}
	if arrive && !hasDefault {
		// see Recv2: reaching a blocking select and being parked on its channels are two steps
		t.op = opYield
		t.point()
	}
	t.op = opSelect
	t.hasDflt = hasDefault
	for k := range t.cases {
		if t.cases[k].ref.cap == 0 && t.cases[k].ref.p != nil {
			raceReleaseMerge(t.cases[k].ref.p)
		}
	}
	t.point()
	i := t.resIdx
	var chosen unsafe.Pointer
	if i >= 0 {
		chosen = t.cases[i].ref.p
	}
	for k := range t.cases {
		t.cases[k].box = nil
	}
	if i >= 0 {
		if t.resDirect && chosen != nil {
			raceAcquire(chosen)
		}
		cs[i].done(t)
	}
	return i
}
