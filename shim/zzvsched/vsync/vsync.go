// Package vsync stands in for "sync" in the instrumented sources.
package vsync

import (
	"sync"

	"github.com/pion/transport/v3/zzvsched"
)

type (
	Mutex     = zzvsched.Mutex
	RWMutex   = zzvsched.RWMutex
	WaitGroup = zzvsched.WaitGroup
	Once      = zzvsched.Once
	Map       = sync.Map
	Locker    = sync.Locker
	Pool      = sync.Pool
)
