// Package vsync stands in for "sync" in the instrumented sources.
package vsync

import (
	"sync"

	"github.com/pion/transport/v3/zzvsched"
)

type (
	Mutex     = zzvsched.Mutex
	RWMutex   = zzvsched.RWMutex
	WaitGroup = zzvsched.WaitGroup
	Once      = zzvsched.Once
	Cond      = zzvsched.Cond
	Map       = sync.Map
	Locker    = sync.Locker
	Pool      = sync.Pool
)

// NewCond replaces sync.NewCond.
func NewCond(l Locker) *Cond { return zzvsched.NewCond(l) }
