// Package vatomic stands in for "sync/atomic" in the instrumented sources.
package vatomic

import "github.com/pion/transport/v3/zzvsched"

type (
	Value  = zzvsched.AtomicValue
	Int32  = zzvsched.AtomicInt32
	Int64  = zzvsched.AtomicInt64
	Uint32 = zzvsched.AtomicUint32
	Uint64 = zzvsched.AtomicUint64
	Bool   = zzvsched.AtomicBool
)

type Pointer[T any] struct{ zzvsched.AtomicPointer[T] }

func LoadInt32(p *int32) int32                      { return zzvsched.LoadInt32(p) }
func StoreInt32(p *int32, v int32)                  { zzvsched.StoreInt32(p, v) }
func AddInt32(p *int32, d int32) int32              { return zzvsched.AddInt32(p, d) }
func CompareAndSwapInt32(p *int32, o, n int32) bool { return zzvsched.CompareAndSwapInt32(p, o, n) }
func LoadUint64(p *uint64) uint64                   { return zzvsched.LoadUint64(p) }
func StoreUint64(p *uint64, v uint64)               { zzvsched.StoreUint64(p, v) }
func AddUint64(p *uint64, d uint64) uint64          { return zzvsched.AddUint64(p, d) }
func LoadInt64(p *int64) int64                      { return zzvsched.LoadInt64(p) }
func StoreInt64(p *int64, v int64)                  { zzvsched.StoreInt64(p, v) }
func AddInt64(p *int64, d int64) int64              { return zzvsched.AddInt64(p, d) }
