package zzvsched

import (
	"container/heap"
	"math"
	"time"
	"unsafe"
)

// Virtual time.  The clock advances 1 ns per read (strictly monotonic, like a
// real ns clock under load) and jumps to the deadline of the earliest timer
// when the scheduler takes the clock transition.

type timerKind uint8

const (
	tkChan timerKind = iota
	tkFunc
	tkSleep
	tkTicker
)

type tentry struct {
	when  int64
	seq   int
	kind  timerKind
	tm    *Timer
	th    *Thread
	index int
}

type timerHeap []*tentry

func (h timerHeap) Len() int { return len(h) }
func (h timerHeap) Less(i, j int) bool {
	if h[i].when != h[j].when {
		return h[i].when < h[j].when
	}
	return h[i].seq < h[j].seq
}
func (h timerHeap) Swap(i, j int) { h[i], h[j] = h[j], h[i]; h[i].index = i; h[j].index = j }
func (h *timerHeap) Push(x any)   { e := x.(*tentry); e.index = len(*h); *h = append(*h, e) }
func (h *timerHeap) Pop() any {
	o := *h
	n := len(o)
	e := o[n-1]
	*h = o[:n-1]
	e.index = -1
	return e
}
func (h timerHeap) peek() *tentry { return h[0] }

//go:norace
func (r *run) now(t *Thread) int64 {
	v := r.clock
	if !r.cfg.NoTick {
		r.clock++
	}
	if t != nil {
		h := mix(t.hb, r.clockHB, 21)
		t.hb, r.clockHB = h, h
	}
	return v
}

// Now replaces time.Now.
//
//go:norace
func Now() time.Time {
	t := enter(false)
	if t == nil {
		return Base
	}
	return Base.Add(time.Duration(rr.now(t)))
}

// Since replaces time.Since.
func Since(t time.Time) time.Duration { return Now().Sub(t) }

// Until replaces time.Until.
func Until(t time.Time) time.Duration { return t.Sub(Now()) }

// Elapsed returns the virtual clock without advancing it (harness use).
func Elapsed() time.Duration {
	if rr == nil {
		return 0
	}
	return time.Duration(rr.clock)
}

func satAdd(now int64, d time.Duration) int64 {
	if d <= 0 {
		return now
	}
	w := now + int64(d)
	if w < now {
		return math.MaxInt64
	}
	return w
}

//go:norace
func (r *run) arm(e *tentry) {
	r.timerSeq++
	e.seq = r.timerSeq
	heap.Push(&r.timers, e)
}

//go:norace
func (r *run) disarm(e *tentry) {
	if e != nil && e.index >= 0 {
		heap.Remove(&r.timers, e.index)
	}
}

// fireNext is the clock transition: advance to the earliest entry and fire it.
func (r *run) fireNext() {
	e := heap.Pop(&r.timers).(*tentry)
	if e.when > r.clock {
		r.clock = e.when
	}
	r.last = nil
	switch e.kind {
	case tkSleep:
		e.th.op = opStart
		e.th.hb = mix(e.th.hb, r.clockHB, 22)
		if r.cfg.Trace {
			r.tracef("clock: wake T%d(%s)", e.th.ID, e.th.Name)
			r.thashAdd(uint64(e.th.ID) + 5000)
		}
	case tkChan, tkTicker:
		tm := e.tm
		now := Base.Add(time.Duration(r.clock))
		r.clock++
		sent := false
		select {
		case tm.c <- now:
			sent = true
		default:
		}
		h := mix(tm.hb, r.clockHB, 23)
		tm.hb, r.clockHB = h, h
		if cs := r.chans[tm.ref.p]; cs != nil {
			cs.hb = mix(cs.hb, h, 24)
		} else {
			r.chanState(tm.ref).hb = mix(0, h, 24)
		}
		if e.kind == tkTicker {
			e.when = satAdd(e.when, time.Duration(tm.period))
			r.arm(e)
		} else {
			tm.entry = nil
		}
		if r.cfg.Trace {
			r.tracef("clock: fire chan-timer #%d sent=%v", tm.id, sent)
			r.thashAdd(uint64(tm.id) + 6000)
		}
	case tkFunc:
		tm := e.tm
		tm.entry = nil
		f := tm.f
		prev := cur
		cur = nil
		th := r.spawn("timer-cb", func() {
			raceAcquire(unsafe.Pointer(&tm.id))
			f()
		})
		cur = prev
		h := mix(tm.hb, r.clockHB, 25)
		tm.hb, r.clockHB = h, h
		th.hb = mix(h, uint64(tm.fired), 26)
		tm.fired++
		if r.cfg.Trace {
			r.tracef("clock: dispatch AfterFunc #%d as T%d", tm.id, th.ID)
			r.thashAdd(uint64(tm.id) + 7000)
		}
	}
}

// Timer replaces time.Timer (and, with period != 0, time.Ticker).
type Timer struct {
	C      <-chan time.Time
	c      chan time.Time
	ref    chanRef
	f      func()
	entry  *tentry
	period int64
	hb     uint64
	id     int
	fired  int
}

// Ticker replaces time.Ticker.
type Ticker = Timer

var timerIDs int

//go:norace
func newTimer(d time.Duration, f func(), period int64) *Timer {
	t := enter(false)
	tm := &Timer{f: f, period: period}
	if t == nil {
		tm.c = make(chan time.Time, 1)
		tm.C = tm.c
		return tm
	}
	r := rr
	timerIDs++
	tm.id = timerIDs
	kind := tkFunc
	if f == nil {
		tm.c = make(chan time.Time, 1)
		tm.C = tm.c
		tm.ref = refOf(tm.c)
		kind = tkChan
		if period != 0 {
			kind = tkTicker
		}
	}
	raceRelease(unsafe.Pointer(&tm.id))
	tm.entry = &tentry{when: satAdd(r.now(t), d), kind: kind, tm: tm}
	r.arm(tm.entry)
	r.touch(t, &tm.hb, 27)
	return tm
}

// NewTimer replaces time.NewTimer.
func NewTimer(d time.Duration) *Timer { return newTimer(d, nil, 0) }

// AfterFunc replaces time.AfterFunc.
func AfterFunc(d time.Duration, f func()) *Timer { return newTimer(d, f, 0) }

// NewTicker replaces time.NewTicker.
func NewTicker(d time.Duration) *Ticker {
	if d <= 0 {
		panic("non-positive interval for NewTicker")
	}
	return newTimer(d, nil, int64(d))
}

// After replaces time.After.
func After(d time.Duration) <-chan time.Time { return NewTimer(d).C }

// Stop replaces (*time.Timer).Stop; it is a scheduling point, so an expiry can
// be placed on either side of it.
//
//go:norace
func (tm *Timer) Stop() bool {
	t := enter(false)
	if t == nil {
		return false
	}
	t.op = opTimer
	t.obj = &tm.hb
	t.point()
	r := rr
	active := tm.entry != nil
	if active {
		r.disarm(tm.entry)
		tm.entry = nil
	}
	if tm.c != nil && r.cfg.Go123 {
		// go1.23: no stale tick is observable after Stop
		select {
		case <-tm.c:
			active = true
		default:
		}
	}
	return active
}

// Reset replaces (*time.Timer).Reset.
//
//go:norace
func (tm *Timer) Reset(d time.Duration) bool {
	t := enter(false)
	if t == nil {
		return false
	}
	t.op = opTimer
	t.obj = &tm.hb
	t.point()
	r := rr
	active := tm.entry != nil
	if active {
		r.disarm(tm.entry)
	}
	if tm.c != nil && r.cfg.Go123 {
		select {
		case <-tm.c:
			active = true
		default:
		}
	}
	kind := tkFunc
	if tm.f == nil {
		kind = tkChan
		if tm.period != 0 {
			kind = tkTicker
			tm.period = int64(d)
		}
	}
	raceRelease(unsafe.Pointer(&tm.id))
	tm.entry = &tentry{when: satAdd(r.now(t), d), kind: kind, tm: tm}
	r.arm(tm.entry)
	return active
}

// Sleep replaces time.Sleep.
//
//go:norace
func Sleep(d time.Duration) {
	t := enter(true)
	r := rr
	if d <= 0 {
		t.op = opYield
		t.point()
		return
	}
	e := &tentry{when: satAdd(r.now(t), d), kind: tkSleep, th: t}
	r.arm(e)
	t.op = opSleep
	t.point()
}

// SleepIdle sleeps d of virtual time and then waits until everything else has
// settled (all other threads parked, every due timer and callback run).
func SleepIdle(d time.Duration) {
	Sleep(d)
	WaitIdle()
}
