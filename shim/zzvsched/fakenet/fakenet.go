// Package fakenet is the scheduler-visible replacement of the OS socket used by
// package udp (net.ListenUDP, ipv4/ipv6.NewPacketConn) during model checking.
package fakenet

import (
	"errors"
	"net"
	"os"
	"time"

	"github.com/pion/transport/v3/zzvsched"
	"golang.org/x/net/ipv4"
)

// Datagram is one UDP datagram.
type Datagram struct {
	Addr    net.Addr
	Payload []byte
}

// UDPConn stands in for *net.UDPConn.
type UDPConn struct {
	laddr  *net.UDPAddr
	in     []Datagram
	Out    []Datagram
	closed bool
	rdl    time.Time
	hb     uint64
	// statistics for oracles
	Closes    int
	ReadCalls int
	// BatchPartial lets ReadBatch return only the first queued datagram (environment choice).
	BatchPartial bool
	// OnClose is called (by the closing thread, at that instant) when the socket is closed.
	OnClose func()
}

// Sockets lists the sockets created since Reset, in creation order.
var Sockets []*UDPConn

// Reset forgets all sockets (call at the start of every execution).
func Reset() { Sockets = nil }

var errClosed = net.ErrClosed

type timeoutErr struct{}

func (timeoutErr) Error() string   { return "i/o timeout" }
func (timeoutErr) Timeout() bool   { return true }
func (timeoutErr) Temporary() bool { return true }
func (timeoutErr) Is(e error) bool { return e == os.ErrDeadlineExceeded }

// ListenUDP replaces net.ListenUDP.
func ListenUDP(network string, laddr *net.UDPAddr) (*UDPConn, error) {
	if laddr == nil {
		laddr = &net.UDPAddr{IP: net.IPv4(127, 0, 0, 1), Port: 40000 + len(Sockets)}
	}
	c := &UDPConn{laddr: laddr}
	Sockets = append(Sockets, c)
	return c, nil
}

func (c *UDPConn) point() { zzvsched.Block(&c.hb, func() bool { return true }) }

// ReadFrom blocks until a datagram is queued, the socket is closed or the read
// deadline passes.
func (c *UDPConn) ReadFrom(b []byte) (int, net.Addr, error) {
	c.ReadCalls++
	zzvsched.Block(&c.hb, func() bool {
		return c.closed || len(c.in) > 0 || (!c.rdl.IsZero() && zzvsched.Elapsed() >= c.rdl.Sub(zzvsched.Base))
	})
	if c.closed {
		return 0, nil, &net.OpError{Op: "read", Net: "udp", Addr: c.laddr, Err: errClosed}
	}
	if !c.rdl.IsZero() && zzvsched.Elapsed() >= c.rdl.Sub(zzvsched.Base) {
		return 0, nil, &net.OpError{Op: "read", Net: "udp", Addr: c.laddr, Err: timeoutErr{}}
	}
	d := c.in[0]
	c.in = c.in[1:]
	n := copy(b, d.Payload)
	return n, d.Addr, nil
}

// WriteTo records an outbound datagram.
func (c *UDPConn) WriteTo(b []byte, addr net.Addr) (int, error) {
	c.point()
	if c.closed {
		return 0, &net.OpError{Op: "write", Net: "udp", Addr: c.laddr, Err: errClosed}
	}
	c.Out = append(c.Out, Datagram{Addr: addr, Payload: append([]byte(nil), b...)})
	return len(b), nil
}

// Close closes the socket; a second Close fails like the real one.
func (c *UDPConn) Close() error {
	c.point()
	c.Closes++
	if c.closed {
		return &net.OpError{Op: "close", Net: "udp", Addr: c.laddr, Err: errClosed}
	}
	c.closed = true
	if c.OnClose != nil {
		c.OnClose()
	}
	return nil
}

func (c *UDPConn) LocalAddr() net.Addr { return c.laddr }

func (c *UDPConn) SetDeadline(t time.Time) error { return c.SetReadDeadline(t) }

func (c *UDPConn) SetReadDeadline(t time.Time) error {
	c.point()
	if c.closed {
		return &net.OpError{Op: "set", Net: "udp", Addr: c.laddr, Err: errClosed}
	}
	c.rdl = t
	if !t.IsZero() {
		if d := zzvsched.Until(t); d > 0 {
			zzvsched.NewTimer(d) // makes the clock reach the deadline
		}
	}
	return nil
}

func (c *UDPConn) SetWriteDeadline(time.Time) error { return nil }
func (c *UDPConn) SetReadBuffer(int) error          { return nil }
func (c *UDPConn) SetWriteBuffer(int) error         { return nil }

// Inject queues an inbound datagram (harness side); a scheduling point.
func (c *UDPConn) Inject(from net.Addr, payload []byte) {
	c.point()
	if c.closed {
		return
	}
	c.in = append(c.in, Datagram{Addr: from, Payload: append([]byte(nil), payload...)})
}

// Closed reports whether Close has been called (no scheduling point).
func (c *UDPConn) Closed() bool { return c.closed }

// Queued is the number of datagrams not yet read.
func (c *UDPConn) Queued() int { return len(c.in) }

// BatchPC stands in for *ipv4.PacketConn / *ipv6.PacketConn.
type BatchPC struct{ c *UDPConn }

// NewPacketConn4 replaces ipv4.NewPacketConn.
func NewPacketConn4(pc net.PacketConn) *BatchPC {
	if c, ok := pc.(*UDPConn); ok {
		return &BatchPC{c: c}
	}
	return nil
}

// NewPacketConn6 replaces ipv6.NewPacketConn (never chosen: the fake is IPv4).
func NewPacketConn6(pc net.PacketConn) *BatchPC { return nil }

var errNoBuf = errors.New("fakenet: message without buffer")

// ReadBatch blocks for at least one datagram and returns as many as are queued
// and fit (or, as an environment choice, only the first one).
func (p *BatchPC) ReadBatch(ms []ipv4.Message, flags int) (int, error) {
	c := p.c
	c.ReadCalls++
	zzvsched.Block(&c.hb, func() bool { return c.closed || len(c.in) > 0 })
	if c.closed {
		return 0, &net.OpError{Op: "read", Net: "udp", Addr: c.laddr, Err: errClosed}
	}
	max := len(ms)
	if len(c.in) < max {
		max = len(c.in)
	}
	if max > 1 && c.BatchPartial && zzvsched.Choose(2) == 1 {
		max = 1
	}
	for i := 0; i < max; i++ {
		if len(ms[i].Buffers) == 0 {
			return i, errNoBuf
		}
		d := c.in[i]
		ms[i].N = copy(ms[i].Buffers[0], d.Payload)
		ms[i].Addr = d.Addr
	}
	c.in = c.in[max:]
	return max, nil
}

// WriteBatch records every message as one outbound datagram.
func (p *BatchPC) WriteBatch(ms []ipv4.Message, flags int) (int, error) {
	c := p.c
	c.point()
	if c.closed {
		return 0, &net.OpError{Op: "write", Net: "udp", Addr: c.laddr, Err: errClosed}
	}
	for i := range ms {
		var b []byte
		for _, part := range ms[i].Buffers {
			b = append(b, part...)
		}
		c.Out = append(c.Out, Datagram{Addr: ms[i].Addr, Payload: b})
	}
	return len(ms), nil
}

// Close closes the underlying socket.
func (p *BatchPC) Close() error { return p.c.Close() }
