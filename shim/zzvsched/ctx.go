package zzvsched

import (
	"context"
	"time"
)

// Ctx is a context.Context whose cancellation is visible to the scheduler
// (context.WithCancel would close its Done channel behind the shim's back).
type Ctx struct {
	done chan struct{}
	err  AtomicValue
	// DL, if non-zero, is reported by Deadline() (the context is still only cancelled by its cancel function)
	DL time.Time
}

type ctxErr struct{ e error }

// WithCancel returns a scheduler-aware context and its cancel function.
func WithCancel() (*Ctx, func()) {
	c := &Ctx{done: make(chan struct{})}
	var once Once
	return c, func() {
		once.Do(func() {
			c.err.Store(ctxErr{context.Canceled})
			Close(c.done)
		})
	}
}

func (c *Ctx) Deadline() (time.Time, bool) { return c.DL, !c.DL.IsZero() }
func (c *Ctx) Done() <-chan struct{}       { return c.done }
func (c *Ctx) Err() error {
	if v, ok := c.err.Load().(ctxErr); ok {
		return v.e
	}
	return nil
}
func (c *Ctx) Value(any) any { return nil }

// ---- replacements for context.WithCancel / WithTimeout / WithDeadline used *inside* instrumented code

type childCtx struct {
	parent   context.Context
	done     chan struct{}
	err      AtomicValue
	deadline time.Time
	once     Once
}

func (c *childCtx) Deadline() (time.Time, bool) {
	if !c.deadline.IsZero() {
		return c.deadline, true
	}
	return c.parent.Deadline()
}
func (c *childCtx) Done() <-chan struct{} { return c.done }
func (c *childCtx) Err() error {
	if v, ok := c.err.Load().(ctxErr); ok {
		return v.e
	}
	return nil
}
func (c *childCtx) Value(k any) any { return c.parent.Value(k) }

func (c *childCtx) cancel(e error) {
	c.once.Do(func() {
		c.err.Store(ctxErr{e})
		Close(c.done)
	})
}

func newChild(parent context.Context) *childCtx {
	c := &childCtx{parent: parent, done: make(chan struct{})}
	if pd := parent.Done(); pd != nil {
		Go(func() {
			switch Select(false, NewRecv(pd), NewRecv((<-chan struct{})(c.done))) {
			case 0:
				c.cancel(parent.Err())
			}
		})
	}
	return c
}

// CtxWithCancel replaces context.WithCancel.
func CtxWithCancel(parent context.Context) (context.Context, context.CancelFunc) {
	c := newChild(parent)
	return c, func() { c.cancel(context.Canceled) }
}

// CtxWithDeadline replaces context.WithDeadline.
func CtxWithDeadline(parent context.Context, d time.Time) (context.Context, context.CancelFunc) {
	c := newChild(parent)
	c.deadline = d
	if dur := Until(d); dur <= 0 {
		c.cancel(context.DeadlineExceeded)
	} else {
		tm := AfterFunc(dur, func() { c.cancel(context.DeadlineExceeded) })
		return c, func() { tm.Stop(); c.cancel(context.Canceled) }
	}
	return c, func() { c.cancel(context.Canceled) }
}

// CtxWithTimeout replaces context.WithTimeout.
func CtxWithTimeout(parent context.Context, d time.Duration) (context.Context, context.CancelFunc) {
	return CtxWithDeadline(parent, Now().Add(d))
}

// Tick replaces time.Tick.
func Tick(d time.Duration) <-chan time.Time {
	if d <= 0 {
		return nil
	}
	return NewTicker(d).C
}
