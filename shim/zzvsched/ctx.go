package zzvsched

import (
	"context"
	"time"
)

// Ctx is a context.Context whose cancellation is visible to the scheduler
// (context.WithCancel would close its Done channel behind the shim's back).
type Ctx struct {
	done chan struct{}
	err  AtomicValue
}

type ctxErr struct{ e error }

// WithCancel returns a scheduler-aware context and its cancel function.
func WithCancel() (*Ctx, func()) {
	c := &Ctx{done: make(chan struct{})}
	var once Once
	return c, func() {
		once.Do(func() {
			c.err.Store(ctxErr{context.Canceled})
			Close(c.done)
		})
	}
}

func (c *Ctx) Deadline() (time.Time, bool) { return time.Time{}, false }
func (c *Ctx) Done() <-chan struct{}       { return c.done }
func (c *Ctx) Err() error {
	if v, ok := c.err.Load().(ctxErr); ok {
		return v.e
	}
	return nil
}
func (c *Ctx) Value(any) any { return nil }
