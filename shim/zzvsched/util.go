package zzvsched

import (
	"io"
	"os"
)

func stderr() io.Writer { return os.Stderr }
func exit2()            { os.Exit(2) }
