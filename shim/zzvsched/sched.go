// Package zzvsched is the cooperative scheduler + virtual clock that the
// instrumented copy of pion/transport runs under during model checking.
//
// It is supplied to the compiler through `go build -overlay` as a virtual
// package below the repository root; nothing here is committed to /repo.
//
// Exactly one managed goroutine ("thread") runs at a time.  Before every
// visible operation a thread publishes the operation in its own record and
// parks; the goroutine that called Run owns the scheduling decision, asks the
// Chooser which enabled thread (or the clock) moves next, applies the shim-side
// state change and resumes that thread, which then performs the real operation
// and runs on to its next visible operation.
package zzvsched

import (
	"fmt"
	"runtime"
	"runtime/debug"
	"sync"
	"sync/atomic"
	"time"
	"unsafe"
)

type opKind uint8

const (
	opNone opKind = iota
	opStart
	opYield
	opLock
	opRLock
	opWGAdd
	opWGWait
	opOnce
	opAtomic
	opSend
	opRecv
	opClose
	opSelect
	opSleep
	opTimer
	opIdle
	opNet // fakenet / harness blocking op guarded by a condition closure
)

var opNames = [...]string{"none", "start", "yield", "lock", "rlock", "wgadd", "wgwait", "once", "atomic", "send", "recv", "close", "select", "sleep", "timer", "idle", "cond"}

func (k opKind) String() string { return opNames[k] }

type tstate uint8

const (
	stPending tstate = iota // parked at a visible operation
	stRunning
	stDone
)

// Thread is one managed goroutine.
type Thread struct {
	ID   int
	Name string
	gate gate

	state tstate
	op    opKind

	// operands of the pending operation
	mu      *Mutex
	rw      *RWMutex
	wg      *WaitGroup
	once    *Once
	ref     chanRef
	box     any
	cases   []selCase
	hasDflt bool
	cond    func() bool // opNet: enabled iff cond()
	quiet   int64       // opIdle: additionally no timer may be due within this many ns
	obj     *uint64     // hb cell of the object touched (opAtomic, opTimer, opNet)

	// result of the granted operation
	resIdx    int
	resBox    any
	resOK     bool
	resDirect bool // value was handed over by the partner / no real channel op needed
	resRun    bool // once: caller must run f
	completed bool // pending channel operation was completed by the partner

	hb      uint64 // happens-before hash of everything this thread has observed
	spawned int
	site    string
	InCall  string // free for harness use: which API call this thread is inside
	panicV  any
	stack   string
	exited  bool // body returned normally
}

// PointRec is one recorded choice point.
type PointRec struct {
	N      int    // number of options
	Chosen int    // option taken
	Costs  []int8 // deviation cost per option (nil = all zero)
	Data   bool   // data choice (select case, random number, harness Choose)
	FP     uint64 // HB fingerprint of the state in which the choice was made (if Config.FP)
	Cur    int    // id of the thread that ran last (-1 none)
}

// ParkInfo describes a thread that had not finished when the execution ended.
type ParkInfo struct {
	ID     int
	Name   string
	Op     string
	InCall string
	Site   string
}

// PanicInfo is a panic recovered in a managed thread.
type PanicInfo struct {
	Thread string
	Value  string
	Stack  string
}

// Exec is what one execution produced.
type Exec struct {
	Points     []PointRec
	Steps      int
	HorizonHit bool
	Parked     []ParkInfo
	Panics     []PanicInfo
	Trace      []string
	TraceHash  uint64
	EndClock   time.Duration
	Threads    int
	Conflicts  int      // operations that touched an object last touched by another thread
	Stalls     int      // clock advances to a future instant while some thread was enabled
	Stalled    []string // "name@operation" of the threads that could run while the clock advanced (with repetitions)
}

// Config parametrises one execution.
type Config struct {
	Prefix         []int
	MaxSteps       int
	Horizon        time.Duration // virtual-time horizon (0 = 1h)
	Trace          bool
	FP             bool
	Go123          bool // channel-timer semantics of go1.23+ (Stop/Reset discard a pending tick)
	RandMenu       func(n int64) []int64
	RandLog        *[]int64 // every drawn value is appended here
	NoTick         bool     // the clock does not advance on reads (sequential harnesses that merge states)
	YieldOnRelease bool     // a Mutex/RWMutex unlock is followed by a scheduling point (code that touches shared state right after unlocking)
	Strict         bool     // every departure from the default scheduling decision costs 1 (also when the running thread blocked)
	Sites          bool
}

// randKey: the global pseudo-random generator is a deterministic function of (seed, position): seeding it
// again with a value used before replays the draws made after the first seeding.
type randKey struct{ seed, idx, n int64 }

type randMemoEntry struct {
	k randKey
	v int64
}

type run struct {
	stalled  []string
	randSeed int64
	randIdx  int64
	randMemo []randMemoEntry // a slice, not a map: runtime map accesses are seen by the race detector even from //go:norace code
	cfg      Config
	threads  []*Thread // every thread ever created (reports)
	active   []*Thread // threads that have not finished (scanned by the scheduler)
	ndone    int
	doneSum  uint64
	last     *Thread
	clock    int64
	clockHB  uint64
	timers   timerHeap
	timerSeq int
	chans    map[unsafe.Pointer]*chanState
	points   []PointRec
	pi       int
	steps    int
	aborting bool
	live     sync.WaitGroup
	trace    []string
	thash    uint64
	horizon  int64
	hit      bool
	conflict int
	stalls   int
	schedG   gate
	costBuf  []int8
}

// R is the active run (nil outside Run).  Plain global: only one thread (or the
// scheduler) executes at any time.
var (
	cur *Thread
	rr  *run
)

// Base is virtual time zero.
var Base = time.Unix(1700000000, 0).UTC()

// ErrMachinery is panicked (on the scheduler goroutine) when the shim detects
// that it lost control; harnesses turn it into exit code 2, never a violation.
type ErrMachinery struct{ Msg string }

func (e ErrMachinery) Error() string { return "zzvsched machinery error: " + e.Msg }

func fatal(format string, a ...any) {
	msg := fmt.Sprintf(format, a...)
	fmt.Fprintf(stderr(), "zzvsched: FATAL %s\n%s\n", msg, debug.Stack())
	exit2()
}

// Watchdog: if the scheduler makes no step for a minute while a run is active, a thread is
// stuck outside the shim's control (an uninstrumented blocking operation, an endless loop without
// visible operations).  That is a machinery error (exit 2), never a finding.
var (
	wdProgress uint64
	wdActive   int32
	wdOnce     sync.Once
)

func watchdog() {
	last, idle := uint64(0), 0
	for {
		time.Sleep(5 * time.Second)
		p := atomic.LoadUint64(&wdProgress)
		if atomic.LoadInt32(&wdActive) == 0 || p != last {
			last, idle = p, 0
			continue
		}
		idle++
		if idle >= 12 {
			fmt.Fprintf(stderr(), "zzvsched: FATAL no scheduling step for 60 s: a thread is blocked or spinning outside the scheduler's control\n")
			exit2()
		}
	}
}

// Active reports whether a run is in progress.
func Active() bool { return rr != nil }

// Run executes body as the main managed thread under the scheduler and returns
// when the system is quiescent (no enabled thread, no armed timer) or the
// horizon is hit.  Threads that are still parked are reported and then aborted.
func Run(cfg Config, body func()) *Exec {
	if rr != nil {
		fatal("nested Run")
	}
	r := &run{cfg: cfg, chans: map[unsafe.Pointer]*chanState{}, randSeed: -1 << 63}
	addrCells = nil
	timerIDs = 0
	r.schedG = newGate()
	if cfg.MaxSteps == 0 {
		r.cfg.MaxSteps = 200000
	}
	r.horizon = int64(cfg.Horizon)
	if r.horizon == 0 {
		r.horizon = int64(time.Hour)
	}
	rr = r
	cur = nil
	wdOnce.Do(func() { go watchdog() })
	atomic.StoreInt32(&wdActive, 1)
	r.spawn("main", body)
	r.loop()
	atomic.StoreInt32(&wdActive, 0)
	ex := &Exec{Points: r.points, Steps: r.steps, HorizonHit: r.hit, Trace: r.trace, TraceHash: r.thash,
		EndClock: time.Duration(r.clock), Threads: len(r.threads), Conflicts: r.conflict, Stalls: r.stalls, Stalled: r.stalled}
	for _, t := range r.threads {
		if t.state != stDone {
			ex.Parked = append(ex.Parked, ParkInfo{ID: t.ID, Name: t.Name, Op: t.op.String(), InCall: t.InCall, Site: t.site})
		}
		if t.panicV != nil {
			ex.Panics = append(ex.Panics, PanicInfo{Thread: t.Name, Value: fmt.Sprint(t.panicV), Stack: t.stack})
		}
	}
	// tear down
	r.aborting = true
	for _, t := range r.threads {
		if t.state != stDone {
			t.gate.signal()
		}
	}
	r.live.Wait()
	for _, t := range r.threads {
		t.gate.close()
	}
	r.schedG.close()
	rr = nil
	cur = nil
	return ex
}

func (r *run) spawn(name string, f func()) *Thread {
	t := &Thread{ID: len(r.threads), Name: name, op: opStart, state: stPending}
	t.gate = newGate()
	if cur != nil {
		cur.spawned++
		t.hb = mix(cur.hb, uint64(cur.spawned), 0x5bd1e995)
	} else {
		t.hb = mix(r.clockHB, uint64(len(r.threads)), 0x1234567)
	}
	r.threads = append(r.threads, t)
	r.active = append(r.active, t)
	r.live.Add(1)
	go t.main(r, f)
	return t
}

func (t *Thread) main(r *run, f func()) {
	defer t.finish(r)
	t.gate.wait()
	if r.aborting {
		return
	}
	f()
	t.exited = true
}

// finish is the deferred epilogue of every thread (a named function: closures are
// instrumented by the race detector even inside //go:norace functions).
func (t *Thread) finish(r *run) {
	v := recover()
	if r.aborting {
		r.live.Done()
		return
	}
	if v != nil {
		t.panicV = v
		t.stack = string(debug.Stack())
	}
	t.state = stDone
	t.op = opNone
	r.ndone++
	r.live.Done()
	r.schedG.signal()
}

// enter is called at the top of every shim operation executed by a thread.
// blocking=true operations terminate the goroutine during tear-down.
//
//go:norace
func enter(blocking bool) *Thread {
	r := rr
	if r == nil {
		if !blocking {
			// package-level initialisers of the code under test run before any execution (e.g. a variable
			// initialised from time.Now() or a seeded generator): clock reads, draws and releases are harmless
			// there and answer like an aborted run (the base time, the first menu entry, nothing)
			return nil
		}
		fatal("blocking shim operation outside zzvsched.Run (uninstrumented caller?)")
	}
	if r.aborting {
		if blocking {
			runtime.Goexit()
		}
		return nil
	}
	return cur
}

// point publishes the pending operation (fields already filled in) and parks
// until the scheduler grants it.
//
//go:norace
func (t *Thread) point() {
	r := rr
	if r.cfg.Sites || r.cfg.Trace {
		t.site = callerSite()
	}
	t.state = stPending
	r.schedG.signal()
	t.gate.wait()
	if r.aborting {
		runtime.Goexit()
	}
}

func callerSite() string {
	var pcs [12]uintptr
	n := runtime.Callers(3, pcs[:])
	fr := runtime.CallersFrames(pcs[:n])
	for {
		f, more := fr.Next()
		if f.Function != "" && !isShimFunc(f.Function) {
			return fmt.Sprintf("%s:%d", shortFunc(f.Function), f.Line)
		}
		if !more {
			break
		}
	}
	return "?"
}

func isShimFunc(fn string) bool {
	const p = "github.com/pion/transport/v3/zzvsched"
	return len(fn) >= len(p) && fn[:len(p)] == p
}

func shortFunc(fn string) string {
	const p = "github.com/pion/transport/v3/"
	if len(fn) > len(p) && fn[:len(p)] == p {
		return fn[len(p):]
	}
	return fn
}

func mix(a, b, c uint64) uint64 {
	h := a*0x9E3779B97F4A7C15 ^ (b + 0x7F4A7C159E3779B9 + (a << 6) + (a >> 2))
	h ^= h >> 29
	h *= 0xBF58476D1CE4E5B9
	h ^= c + 0x94D049BB133111EB + (h << 7)
	h ^= h >> 32
	h *= 0x94D049BB133111EB
	h ^= h >> 29
	return h
}

// touch chains the running thread's hash through an object's hash cell.
//
//go:norace
func (r *run) touch(t *Thread, cell *uint64, kind uint64) {
	if cell == nil {
		t.hb = mix(t.hb, kind, 1)
		return
	}
	if *cell != 0 && *cell != t.hb {
		// last touched by somebody else (or by us earlier with other ops since)
		r.conflict++
	}
	h := mix(t.hb, *cell, kind)
	t.hb = h
	*cell = h
}

func (r *run) enabled(t *Thread) bool {
	switch t.op {
	case opStart, opYield, opWGAdd, opAtomic, opClose, opTimer:
		return true
	case opLock:
		if t.mu != nil {
			return t.mu.owner == 0
		}
		return t.rw.owner == 0 && t.rw.readers == 0
	case opRLock:
		return t.rw.owner == 0 && t.rw.wwait == 0
	case opWGWait:
		return t.wg.n == 0
	case opOnce:
		return !t.once.running
	case opSend:
		return r.sendReady(t.ref, t)
	case opRecv:
		return r.recvReady(t.ref, t)
	case opSelect:
		if t.hasDflt {
			return true
		}
		for i := range t.cases {
			if r.caseReady(&t.cases[i], t) {
				return true
			}
		}
		return false
	case opNet:
		return t.cond()
	case opSleep, opIdle, opNone:
		return false
	}
	return false
}

func (r *run) tracef(format string, a ...any) {
	s := fmt.Sprintf(format, a...)
	if r.cfg.Trace {
		r.trace = append(r.trace, fmt.Sprintf("[%6dns] %s", r.clock, s))
	}
}

// choose records a choice point and returns the option taken.
func (r *run) choose(n int, costs []int8, data bool, fp uint64) int {
	if n <= 1 {
		return 0
	}
	c := 0
	if r.pi < len(r.cfg.Prefix) {
		c = r.cfg.Prefix[r.pi]
		if c < 0 || c >= n {
			panic(ErrMachinery{fmt.Sprintf("replay divergence: choice %d out of range %d at point %d", c, n, r.pi)})
		}
	}
	r.pi++
	var cs []int8
	if costs != nil {
		cs = append([]int8(nil), costs...)
	}
	lastID := -1
	if r.last != nil {
		lastID = r.last.ID
	}
	r.points = append(r.points, PointRec{N: n, Chosen: c, Costs: cs, Data: data, FP: fp, Cur: lastID})
	return c
}

func (r *run) fingerprint() uint64 {
	var s uint64
	for _, t := range r.active {
		s += mix(t.hb, uint64(t.op), uint64(t.state))
	}
	s += r.doneSum // finished threads that were compacted away still count
	s = mix(s, r.clockHB, uint64(r.clock))
	return s
}

func (r *run) loop() {
	var en []*Thread
	for {
		// a panic on this goroutine (machinery error) must not leave threads running
		if r.steps >= r.cfg.MaxSteps || r.clock > r.horizon {
			r.hit = true
			return
		}
		if r.ndone > 16 && r.ndone*2 > len(r.active) {
			k := 0
			for _, t := range r.active {
				if t.state != stDone {
					r.active[k] = t
					k++
				} else {
					r.doneSum += mix(t.hb, uint64(t.op), uint64(t.state))
				}
			}
			for i := k; i < len(r.active); i++ {
				r.active[i] = nil
			}
			r.active = r.active[:k]
			r.ndone = 0
		}
		en = en[:0]
		var curEn *Thread
		for _, t := range r.active {
			if t.state == stPending && t.op != opIdle && r.enabled(t) {
				if t == r.last {
					curEn = t
				} else {
					en = append(en, t)
				}
			}
		}
		if curEn != nil {
			en = append(en, nil)
			copy(en[1:], en[:len(en)-1])
			en[0] = curEn
		}
		nonIdle := len(en)
		due := r.timers.Len() > 0 && r.timers.peek().when <= r.clock
		if nonIdle == 0 && !due {
			// idle waiters become enabled (each may require a quiet period without timers ahead)
			for _, t := range r.active {
				if t.state == stPending && t.op == opIdle {
					if t.quiet > 0 && r.timers.Len() > 0 && r.timers.peek().when <= r.clock+t.quiet && r.timers.peek().when <= r.horizon {
						continue
					}
					en = append(en, t)
				}
			}
		}
		// a timer beyond the horizon never fires within this execution (e.g. the
		// "no deadline" timers armed with math.MaxInt64)
		hasClock := r.timers.Len() > 0 && r.timers.peek().when <= r.horizon
		n := len(en)
		if hasClock {
			n++
		}
		if n == 0 {
			return // quiescent
		}
		// costs
		costs := r.costBuf[:0]
		anyCost := false
		for i := 0; i < len(en); i++ {
			c := int8(0)
			if (curEn != nil || r.cfg.Strict) && i != 0 {
				c = 1
			}
			costs = append(costs, c)
			anyCost = anyCost || c != 0
		}
		if hasClock {
			c := int8(0)
			if due {
				if curEn != nil {
					c = 1
				}
			} else if len(en) > 0 {
				c = 1
			}
			costs = append(costs, c)
			anyCost = anyCost || c != 0
		}
		r.costBuf = costs
		var fp uint64
		if r.cfg.FP && n > 1 {
			fp = r.fingerprint()
		}
		var k int
		if anyCost {
			k = r.choose(n, costs, false, fp)
		} else {
			k = r.choose(n, nil, false, fp)
		}
		r.steps++
		atomic.AddUint64(&wdProgress, 1)
		if k == len(en) {
			// clock transition
			if !due && len(en) > 0 {
				r.stalls++ // time passes although a thread could run: that thread is stalled
				for _, t := range en {
					if t.op != opIdle {
						r.stalled = append(r.stalled, t.Name+"@"+t.op.String())
					}
				}
			}
			r.fireNext()
			continue
		}
		t := en[k]
		r.apply(t)
		r.last = t
		cur = t
		t.state = stRunning
		if r.cfg.Trace {
			r.thashAdd(uint64(t.ID)*131 + uint64(t.op))
		}
		t.gate.signal()
		r.schedG.wait()
	}
}

func (r *run) thashAdd(v uint64) { r.thash = mix(r.thash, v, 7) }

// apply performs the shim-side state change of t's granted operation.
func (r *run) apply(t *Thread) {
	if r.cfg.Trace {
		r.tracef("T%d(%s) %s %s", t.ID, t.Name, t.op, t.site)
	}
	if t.completed {
		// the operation was already completed by its rendezvous partner
		t.completed = false
		r.touch(t, nil, 2)
		return
	}
	t.resDirect = false
	switch t.op {
	case opStart, opYield:
		r.touch(t, nil, uint64(t.op))
	case opLock:
		if t.mu != nil {
			t.mu.owner = int32(t.ID + 1)
			r.touch(t, &t.mu.hb, 3)
		} else {
			t.rw.owner = int32(t.ID + 1)
			t.rw.wwait--
			r.touch(t, &t.rw.hb, 3)
		}
	case opRLock:
		t.rw.readers++
		r.touch(t, &t.rw.hb, 4)
	case opWGAdd:
		r.touch(t, &t.wg.hb, 5)
	case opWGWait:
		r.touch(t, &t.wg.hb, 6)
	case opOnce:
		if t.once.done {
			t.resRun = false
		} else {
			t.once.running = true
			t.resRun = true
		}
		r.touch(t, &t.once.hb, 7)
	case opAtomic, opTimer, opNet:
		r.touch(t, t.obj, uint64(t.op))
	case opClose:
		if t.ref.p != nil {
			cs := r.chanState(t.ref)
			cs.closed = true
			r.touch(t, &cs.hb, 8)
		}
	case opSend:
		r.applySend(t, t.ref, t.box)
	case opRecv:
		r.applyRecv(t, t.ref)
	case opSelect:
		r.applySelect(t)
	case opIdle:
		r.touch(t, nil, 15)
	}
}

// ---------------------------------------------------------------- public thread API

// Go starts f as a new managed thread.
//
//go:norace
func Go(f func()) {
	GoNamed("", f)
}

// GoNamed is Go with a name for traces and oracles.
//
//go:norace
func GoNamed(name string, f func()) *Thread {
	t := enter(false)
	if t == nil {
		return nil
	}
	r := rr
	if name == "" {
		name = fmt.Sprintf("%s.%d", t.Name, t.spawned+1)
	}
	raceRelease(unsafe.Pointer(&t.spawned))
	return r.spawn(name, f)
}

// Yield is a pure scheduling point.
//
//go:norace
func Yield() {
	t := enter(true)
	t.op = opYield
	t.point()
}

// Self returns the running thread.
func Self() *Thread { return cur }

// WaitIdle blocks until no other thread is enabled and no timer is due.
//
//go:norace
func WaitIdle() {
	t := enter(true)
	t.op = opIdle
	t.quiet = 0
	t.point()
}

// WaitQuiet blocks until no other thread is enabled and no timer will fire within d:
// nanosecond-scale internal sleeps (a router waiting for a chunk to become due) have run out.
//
//go:norace
func WaitQuiet(d time.Duration) {
	t := enter(true)
	t.op = opIdle
	t.quiet = int64(d)
	t.point()
	t.quiet = 0
}

// Block parks the calling thread until cond() holds; cond is evaluated by the
// scheduler and must only read state that changes under shim operations.
// cell is the happens-before cell of the object waited on.
//
//go:norace
func Block(cell *uint64, cond func() bool) {
	t := enter(true)
	t.op = opNet
	t.cond = cond
	t.obj = cell
	t.point()
	t.cond = nil
}

// Choose is a data choice point of the harness: returns a value in [0,n).
//
//go:norace
func Choose(n int) int {
	t := enter(false)
	if t == nil {
		return 0
	}
	r := rr
	k := r.choose(n, nil, true, 0)
	t.hb = mix(t.hb, uint64(k), 0xC0FFEE)
	if r.cfg.Trace {
		r.tracef("T%d(%s) choose %d/%d", t.ID, t.Name, k, n)
		r.thashAdd(uint64(k) + 977)
	}
	return k
}

// RandChoice implements vrand: the harness-declared menu for a draw from [0,n).
//
//go:norace
func RandChoice(n int64) int64 {
	t := enter(false)
	if t == nil {
		return 0
	}
	r := rr
	if r.cfg.RandMenu == nil {
		return 0
	}
	menu := r.cfg.RandMenu(n)
	if len(menu) == 0 {
		return 0
	}
	key := randKey{r.randSeed, r.randIdx, n}
	r.randIdx++
	v, ok := int64(0), false
	for i := range r.randMemo {
		if r.randMemo[i].k == key {
			v, ok = r.randMemo[i].v, true
			break
		}
	}
	if ok {
		// the generator was re-seeded with a value used before: same position, same draw
		t.hb = mix(t.hb, uint64(v), 0xD1CF)
		if r.cfg.RandLog != nil {
			*r.cfg.RandLog = append(*r.cfg.RandLog, v)
		}
		if r.cfg.Trace {
			r.tracef("T%d(%s) rand(%d)=%d (replayed: seed %d position %d)", t.ID, t.Name, n, v, key.seed, key.idx)
		}
		return v
	}
	k := 0
	if len(menu) > 1 {
		k = r.choose(len(menu), nil, true, 0)
	}
	r.randMemo = append(r.randMemo, randMemoEntry{key, menu[k]})
	t.hb = mix(t.hb, uint64(menu[k]), 0xD1CE)
	if r.cfg.RandLog != nil {
		*r.cfg.RandLog = append(*r.cfg.RandLog, menu[k])
	}
	if r.cfg.Trace {
		r.tracef("T%d(%s) rand(%d)=%d", t.ID, t.Name, n, menu[k])
		r.thashAdd(uint64(menu[k]) + 1977)
	}
	return menu[k]
}

// RandSeed models math/rand.Seed for the global generator (see randKey).
//
//go:norace
func RandSeed(seed int64) {
	if t := enter(false); t == nil {
		return
	}
	rr.randSeed, rr.randIdx = seed, 0
}

// Tracef adds a harness line to the trace (replay mode).
func Tracef(format string, a ...any) {
	if rr != nil && rr.cfg.Trace {
		rr.tracef("   | "+format, a...)
	}
}
