// Package vrand stands in for "math/rand": every draw is an environment
// choice of the explorer over a harness-declared menu (Config.RandMenu receives
// the size of the range drawn from).
package vrand

import "github.com/pion/transport/v3/zzvsched"

// Source / Rand mirror the math/rand types so that locally created generators
// are owned by the explorer as well.
type Source interface {
	Int63() int64
	Seed(seed int64)
}

type src struct{}

func (src) Int63() int64 { return zzvsched.RandChoice(1 << 62) }
func (src) Seed(int64)   {}

func NewSource(int64) Source { return src{} }

// Rand mirrors *math/rand.Rand, which is NOT safe for concurrent use: every method touches a state word
// through an access the race detector instruments (the package-level functions are safe and touch nothing).
type Rand struct{ state uint64 }

//go:noinline
//verif:instrumented
func (r *Rand) touch() { r.state++ }

func New(Source) *Rand { return &Rand{} }

func draw(n int64) int64 {
	if n <= 0 {
		panic("invalid argument to rand draw")
	}
	return zzvsched.RandChoice(n)
}

func Seed(seed int64)      { zzvsched.RandSeed(seed) }
func Intn(n int) int       { return int(draw(int64(n))) }
func Int63n(n int64) int64 { return draw(n) }
func Int31n(n int32) int32 { return int32(draw(int64(n))) }
func Int() int             { return int(zzvsched.RandChoice(1 << 62)) }
func Int63() int64         { return zzvsched.RandChoice(1 << 62) }
func Int31() int32         { return int32(zzvsched.RandChoice(1 << 31)) }
func Uint32() uint32       { return uint32(zzvsched.RandChoice(1 << 32)) }
func Uint64() uint64       { return uint64(zzvsched.RandChoice(1<<62)) << 1 }
func Float64() float64     { return float64(zzvsched.RandChoice(1<<53)) / (1 << 53) }
func Float32() float32     { return float32(zzvsched.RandChoice(1<<24)) / (1 << 24) }
func Perm(n int) []int {
	p := make([]int, n)
	for i := range p {
		p[i] = i
	}
	Shuffle(n, func(i, j int) { p[i], p[j] = p[j], p[i] })
	return p
}
func Shuffle(n int, swap func(i, j int)) {
	for i := n - 1; i > 0; i-- {
		swap(i, int(draw(int64(i+1))))
	}
}
func Read(p []byte) (int, error) {
	for i := range p {
		p[i] = byte(draw(256))
	}
	return len(p), nil
}

func (r *Rand) Seed(int64)                         { r.touch() }
func (r *Rand) Intn(n int) int                     { r.touch(); return Intn(n) }
func (r *Rand) Int63n(n int64) int64               { r.touch(); return Int63n(n) }
func (r *Rand) Int31n(n int32) int32               { r.touch(); return Int31n(n) }
func (r *Rand) Int() int                           { r.touch(); return Int() }
func (r *Rand) Int63() int64                       { r.touch(); return Int63() }
func (r *Rand) Int31() int32                       { r.touch(); return Int31() }
func (r *Rand) Uint32() uint32                     { r.touch(); return Uint32() }
func (r *Rand) Uint64() uint64                     { r.touch(); return Uint64() }
func (r *Rand) Float64() float64                   { r.touch(); return Float64() }
func (r *Rand) Float32() float32                   { r.touch(); return Float32() }
func (r *Rand) Perm(n int) []int                   { r.touch(); return Perm(n) }
func (r *Rand) Shuffle(n int, swap func(i, j int)) { r.touch(); Shuffle(n, swap) }
func (r *Rand) Read(p []byte) (int, error)         { r.touch(); return Read(p) }
