// Package vrand stands in for "math/rand": every draw is an environment
// choice of the explorer over a harness-declared menu.
package vrand

import "github.com/pion/transport/v3/zzvsched"

func Seed(int64)              {}
func Intn(n int) int          { return int(zzvsched.RandChoice(int64(n))) }
func Int63n(n int64) int64    { return zzvsched.RandChoice(n) }
func Int31n(n int32) int32    { return int32(zzvsched.RandChoice(int64(n))) }
func Int() int                { return int(zzvsched.RandChoice(1 << 62)) }
func Uint32() uint32          { return uint32(zzvsched.RandChoice(1 << 32)) }
func Float64() float64        { return float64(zzvsched.RandChoice(1<<53)) / (1 << 53) }
