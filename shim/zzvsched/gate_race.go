//go:build race

package zzvsched

import (
	"runtime"
	"syscall"
	"unsafe"
)

// In a -race build the hand-off must be invisible to the race detector, otherwise
// the scheduler's serialisation would order every pair of accesses and no race
// could ever be reported.  Threads are parked and woken through pipes with raw
// system calls (syscall.Read/Write are annotated with an acquire/release on a
// global and therefore unusable).

type gate struct{ r, w int }

//go:norace
func newGate() gate {
	var p [2]int
	if err := syscall.Pipe(p[:]); err != nil {
		fatal("pipe: %v", err)
	}
	return gate{r: p[0], w: p[1]}
}

//go:norace
func (g gate) signal() {
	var b [1]byte
	for {
		n, _, e := syscall.Syscall(syscall.SYS_WRITE, uintptr(g.w), uintptr(unsafe.Pointer(&b[0])), 1)
		if n == 1 {
			return
		}
		if e != syscall.EINTR && e != syscall.EAGAIN {
			fatal("gate write: %v", e)
		}
	}
}

//go:norace
func (g gate) wait() {
	var b [1]byte
	for {
		n, _, e := syscall.Syscall(syscall.SYS_READ, uintptr(g.r), uintptr(unsafe.Pointer(&b[0])), 1)
		if n == 1 {
			return
		}
		if e != syscall.EINTR && e != syscall.EAGAIN {
			fatal("gate read: %v", e)
		}
	}
}

//go:norace
func (g gate) close() {
	syscall.Close(g.r)
	syscall.Close(g.w)
}

func raceAcquire(p unsafe.Pointer)      { runtime.RaceAcquire(p) }
func raceRelease(p unsafe.Pointer)      { runtime.RaceRelease(p) }
func raceReleaseMerge(p unsafe.Pointer) { runtime.RaceReleaseMerge(p) }
func raceRead(p unsafe.Pointer)         { runtime.RaceRead(p) }
func raceWrite(p unsafe.Pointer)        { runtime.RaceWrite(p) }

// RaceMode reports whether the binary was built with -race.
const RaceMode = true
