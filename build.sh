#!/bin/bash
# build.sh [race] : rewrite $VERIF_REPO's working tree and build the harness binary against it.
# Output: $VERIF_ROOT/.build/<key>/vharness[-race]
set -e
. "$(dirname "$0")/env.sh"
RACE=""
[ "$1" = "race" ] && RACE="-race"
KEY=$(echo -n "$VERIF_REPO" | md5sum | cut -c1-8)
B="$VERIF_ROOT/.build/$KEY"
mkdir -p "$B"
if [ ! -x "$VERIF_ROOT/.bin/instr" ]; then
  (cd "$VERIF_ROOT/tools/instr" && go build -o "$VERIF_ROOT/.bin/instr" .) || { echo "build.sh: cannot build instr" >&2; exit 2; }
fi
(
  flock 9
  "$VERIF_ROOT/.bin/instr" -repo "$VERIF_REPO" -verif "$VERIF_ROOT" -out "$B/gen" >"$B/instr.log" 2>&1 || { cat "$B/instr.log" >&2; exit 2; }
  # per-repo go.mod so the replace directive can point at a scratch copy
  sed "s#=> /repo#=> $VERIF_REPO#" "$VERIF_ROOT/harness/go.mod" > "$B/go.mod"
  cp "$VERIF_REPO/go.sum" "$B/go.sum"
  cd "$VERIF_ROOT/harness"
  go build $RACE -tags verif -overlay "$B/overlay.json" -modfile "$B/go.mod" -o "$B/vharness$RACE" . 2>"$B/build.log" || { cat "$B/build.log" >&2; exit 2; }
) 9>"$B/.lock"
echo "$B/vharness$RACE"
