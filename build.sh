#!/bin/bash
# build.sh [race] : rewrite $VERIF_REPO's working tree and build the harness binary against it.
# Output: $VERIF_ROOT/.build/<key>/vharness[-race]
set -e
. "$(dirname "$0")/env.sh"
RACE=""
[ "$1" = "race" ] && RACE="-race"
KEY=$(echo -n "$VERIF_REPO" | md5sum | cut -c1-8)
B="$VERIF_ROOT/.build/$KEY"
mkdir -p "$B"
if [ ! -x "$VERIF_ROOT/.bin/instr" ]; then
  (cd "$VERIF_ROOT/tools/instr" && go build -o "$VERIF_ROOT/.bin/instr" .) || { echo "build.sh: cannot build instr" >&2; exit 2; }
fi
(
  flock 9
  SHIMFLAG=""
  if [ -n "$RACE" ]; then
    rm -rf "$B/shim-norace"; python3 "$VERIF_ROOT/tools/norace.py" "$VERIF_ROOT/shim/zzvsched" "$B/shim-norace" || exit 2
    SHIMFLAG="-shim $B/shim-norace"
    # sync.Pool (used by fmt) hands objects from one goroutine to the next with an acquire/release
    # pair that orders everything the two goroutines did, and in race mode it drops every 4th Put
    # at random: an incidental, nondeterministic happens-before edge that hides races.  In the
    # race build the pool drops every object instead (deterministic, no incidental edges).
    GOROOT_DIR=$(go env GOROOT)
    mkdir -p "$B/std"
    sed 's/runtime_randn(4) == 0/true/' "$GOROOT_DIR/src/sync/pool.go" > "$B/std/pool.go"
    grep -q 'if true {' "$B/std/pool.go" || { echo "build.sh: cannot neutralise sync.Pool for the race build" >&2; exit 2; }
    SHIMFLAG="$SHIMFLAG -extra $GOROOT_DIR/src/sync/pool.go=$B/std/pool.go"
  fi
  "$VERIF_ROOT/.bin/instr" -repo "$VERIF_REPO" -verif "$VERIF_ROOT" -out "$B/gen$RACE" $SHIMFLAG >"$B/instr.log" 2>&1 || { cat "$B/instr.log" >&2; exit 2; }
  # per-repo go.mod so the replace directive can point at a scratch copy
  sed "s#=> /repo#=> $VERIF_REPO#" "$VERIF_ROOT/harness/go.mod" > "$B/go.mod"
  cp "$VERIF_REPO/go.sum" "$B/go.sum"
  cd "$VERIF_ROOT/harness"
  go build $RACE -tags verif -overlay "$B/overlay$RACE.json" -modfile "$B/go.mod" -o "$B/vharness$RACE" . 2>"$B/build.log" || { cat "$B/build.log" >&2; exit 2; }
) 9>"$B/.lock"
echo "$B/vharness$RACE"
