#!/bin/bash
# seedcheck.sh <ID> [tier] : verify a sub-agent-seeded change under /tmp/seed/out/<ID> (or seeded/<ID>) myself:
#  existing tests pass with it, the demonstration passes without it and fails with it, then run our check on it.
cd "$(dirname "$0")"; . ./env.sh
ID=$1; TIER=${2:-quick}
# source: $SEED_SRC/<ID> if given, else seeded/<ID> (ID may carry a suffix like C01-2; the property is the part before '-')
SRC=$PWD/seeded/$ID; [ -n "$SEED_SRC" ] && SRC=$SEED_SRC/$ID
PROP=${ID%%-*}
D=$(mktemp -d /tmp/vseed.XXXXXX); trap 'rm -rf "$D"; rm -rf "$VERIF_ROOT/.build/$(echo -n "$D/repo" | md5sum | cut -c1-8)"' EXIT
mkdir -p $D/repo; (cd /repo && git ls-files -z | xargs -0 cp --parents -t $D/repo)
DEMO=$(ls $SRC/*_test.go 2>/dev/null | head -1)
if [ -z "$DEMO" ]; then T=$(ls $SRC/*_test.go.txt | head -1); DEMO=$D/$(basename ${T%.txt}); cp $T $DEMO; fi
CMD=$(cat $SRC/demo_cmd.txt | grep "go test" | head -1)
PKG=$(grep -l . $DEMO >/dev/null; head -40 $DEMO | grep -m1 '^package ' | awk '{print $2}')
# which directory does the demo belong to? take it from the patch's first file unless demo_cmd names one
DIR=$(echo "$CMD" | grep -o '\./[a-z/]*' | tail -1); [ -z "$DIR" ] && DIR=./$(grep -m1 '^+++ b/' $SRC/patch.diff | sed 's#+++ b/##' | xargs dirname)
cd $D/repo
git init -q . 2>/dev/null; git apply $SRC/patch.diff || { echo "PATCH DOES NOT APPLY"; exit 2; }
if [ -z "$SEEDCHECK_SKIP_TESTS" ]; then
echo "== existing tests WITH the change (must pass)"; (go test -vet=off -count=1 $DIR 2>&1 | tail -3)
cp $DEMO $D/repo/$DIR/
echo "== demo WITH the change (must fail)"; (eval "$CMD" 2>&1 | tail -4)
git apply -R $SRC/patch.diff
echo "== demo WITHOUT the change (must pass)"; (eval "$CMD" 2>&1 | tail -3)
git apply $SRC/patch.diff
rm -f $D/repo/$DIR/$(basename $DEMO)
fi
cd $VERIF_ROOT
echo "== our check"; VERIF_EVIDENCE_DIR=$D/evidence VERIF_REPO=$D/repo ./check.sh $PROP $TIER 2>&1 | grep -E "VIOLATION|KNOWN|violations=|error|^  " | head -8
