//go:build verif

package vnet

import (
	"fmt"
	"net"
	"time"

	"github.com/pion/logging"
	"github.com/pion/transport/v3"
	"github.com/pion/transport/v3/zzvsched"
)

// This file is supplied through `go build -overlay` only; it is the narrowest
// in-package seam for the model-checking harnesses (unexported NIC interface,
// NAT translator, chunk constructors).

// ZZRecorded is one chunk seen by a recording NIC.
type ZZRecorded struct {
	At      time.Duration // virtual time of arrival at the NIC
	Src     string
	Dst     string
	Payload []byte
	Tag     string
	Str     string // c.String(): protocol, flags, tag, addresses
	Chunk   Chunk
}

// ZZRecNIC is a NIC that records everything handed to it.
type ZZRecNIC struct {
	// SlowBy makes the NIC take that much (virtual) time per chunk, like a slow device or filter
	SlowBy time.Duration
	Got    []ZZRecorded
	ifc *transport.Interface
	ips []net.IP
}

// ZZNewRecNIC creates a recording NIC (optionally with static IPs).
func ZZNewRecNIC(staticIPs ...string) *ZZRecNIC {
	n := &ZZRecNIC{}
	n.ifc = transport.NewInterface(net.Interface{Index: 2, MTU: 1500, Name: "eth0", Flags: net.FlagUp})
	for _, s := range staticIPs {
		n.ips = append(n.ips, net.ParseIP(s))
	}
	return n
}

func (n *ZZRecNIC) getInterface(string) (*transport.Interface, error) { return n.ifc, nil }
func (n *ZZRecNIC) getStaticIPs() []net.IP                             { return n.ips }
func (n *ZZRecNIC) setRouter(*Router) error                            { return nil }
func (n *ZZRecNIC) onInboundChunk(c Chunk) {
	if n.SlowBy > 0 {
		defer zzvsched.Sleep(n.SlowBy)
	}
	n.Got = append(n.Got, ZZRecorded{At: zzvsched.Elapsed(), Src: c.SourceAddr().String(), Dst: c.DestinationAddr().String(),
		Payload: append([]byte(nil), c.UserData()...), Tag: c.Tag(), Str: c.String(), Chunk: c})
}

// ZZAddrs returns the addresses the router assigned to this NIC.
func (n *ZZRecNIC) ZZAddrs() []string {
	var out []string
	addrs, _ := n.ifc.Addrs()
	for _, a := range addrs {
		if ipn, ok := a.(*net.IPNet); ok {
			out = append(out, ipn.IP.String())
		}
	}
	return out
}

// ZZUDPChunk builds a UDP chunk.
// ZZIPForm selects how IPv4 addresses of the chunks built by ZZUDPChunk are represented:
// 0 = as the resolver returns them, 4 = 4-byte slices, 16 = 16-byte (IPv4-in-IPv6) slices.
// Equal addresses in different representations must be treated alike.
var ZZIPForm int

// ZZStamp, if non-zero, is the queue timestamp given to the chunks built by ZZUDPChunk (routers stamp a chunk
// when it enters their queue; whoever handles it later must judge by the clock, not by that stamp).
var ZZStamp time.Time

func zzForm(ip net.IP) net.IP {
	switch ZZIPForm {
	case 4:
		if v := ip.To4(); v != nil {
			return v
		}
	case 16:
		if v := ip.To16(); v != nil {
			return v
		}
	}
	return ip
}

func ZZUDPChunk(src, dst string, payload []byte) Chunk {
	s, _ := net.ResolveUDPAddr("udp", src)
	d, _ := net.ResolveUDPAddr("udp", dst)
	s.IP, d.IP = zzForm(s.IP), zzForm(d.IP)
	c := newChunkUDP(s, d)
	if !ZZStamp.IsZero() {
		c.timestamp = ZZStamp // as if the chunk had been queued in a router since then
	}
	c.userData = payload
	return c
}

// ZZTCPChunk builds a TCP chunk (PSH|ACK) with payload.
func ZZTCPChunk(src, dst string, payload []byte) Chunk {
	s, _ := net.ResolveTCPAddr("tcp", src)
	d, _ := net.ResolveTCPAddr("tcp", dst)
	c := newChunkTCP(s, d, tcpPSH|tcpACK)
	c.userData = payload
	return c
}

// ZZPush hands a chunk to a NIC (filters, routers, nets) like a router would.
func ZZPush(n NIC, c Chunk) { n.onInboundChunk(c) }

// ZZNAT wraps the unexported translator.
type ZZNAT struct{ N *networkAddressTranslator }

// ZZNewNAT builds a translator the way Router.setRouter does.
func ZZNewNAT(t NATType, mapped, local []string) (*ZZNAT, error) {
	cfg := &natConfig{name: "nat", natType: t, loggerFactory: logging.NewDefaultLoggerFactory()}
	for _, s := range mapped {
		cfg.mappedIPs = append(cfg.mappedIPs, net.ParseIP(s))
	}
	for _, s := range local {
		cfg.localIPs = append(cfg.localIPs, net.ParseIP(s))
	}
	n, err := newNAT(cfg)
	if err != nil {
		return nil, err
	}
	return &ZZNAT{N: n}, nil
}

// Outbound translates an outbound datagram; it returns the translated source,
// destination and payload (ok=false: dropped without error).
func (z *ZZNAT) Outbound(src, dst string, payload []byte) (nsrc, ndst string, data []byte, ok bool, err error) {
	c, err := z.N.translateOutbound(ZZUDPChunk(src, dst, payload))
	if err != nil || c == nil {
		return "", "", nil, false, err
	}
	return c.SourceAddr().String(), c.DestinationAddr().String(), c.UserData(), true, nil
}

// Inbound translates an inbound datagram.
func (z *ZZNAT) Inbound(src, dst string, payload []byte) (nsrc, ndst string, data []byte, err error) {
	c, err := z.N.translateInbound(ZZUDPChunk(src, dst, payload))
	if err != nil {
		return "", "", nil, err
	}
	if c == nil {
		return "", "", nil, errNoNATBindingFound
	}
	return c.SourceAddr().String(), c.DestinationAddr().String(), c.UserData(), nil
}

// ZZRouterNICs lists "ip" keys registered on a router (for oracles).
func ZZRouterNICs(r *Router) []string {
	var out []string
	for k := range r.nics {
		out = append(out, k)
	}
	return out
}

// ZZTBFQueued returns the destination addresses of the chunks still waiting in a token bucket filter's queue.
func ZZTBFQueued(t *TokenBucketFilter) []string {
	var out []string
	t.queue.mutex.RLock()
	defer t.queue.mutex.RUnlock()
	for _, c := range t.queue.chunks {
		out = append(out, c.DestinationAddr().String())
	}
	return out
}

// ZZRouterAddrs returns the addresses a parent router assigned to this (child) router's eth0.
func ZZRouterAddrs(r *Router) []string {
	var out []string
	for _, ifc := range r.interfaces {
		if ifc.Name != "eth0" {
			continue
		}
		addrs, _ := ifc.Addrs()
		for _, a := range addrs {
			if ipn, ok := a.(*net.IPNet); ok {
				out = append(out, ipn.IP.String())
			}
		}
	}
	return out
}

// ZZNetAddrs returns the eth0 addresses of a Net.
func ZZNetAddrs(n *Net) []string {
	var out []string
	for _, ifc := range n.interfaces {
		if ifc.Name != "eth0" {
			continue
		}
		addrs, _ := ifc.Addrs()
		for _, a := range addrs {
			if ipn, ok := a.(*net.IPNet); ok {
				out = append(out, ipn.IP.String())
			}
		}
	}
	return out
}

// ZZBindTable lists "ip:port" of every socket registered in a Net's bind table.
func ZZBindTable(n *Net) []string {
	var out []string
	for port, conns := range n.udpConns.portMap {
		for _, c := range conns {
			out = append(out, fmt.Sprintf("%s:%d", c.locAddr.IP.String(), port))
		}
	}
	return out
}

// ZZNewNATRouter builds root <- lan(NAPT, external address mapped[0]) with real routers and returns the LAN
// router together with its translator.  The LAN router accepts pushes without a forwarding loop, so that what
// it queued for forwarding can be inspected.
func ZZNewNATRouter(t NATType, mapped string) (*Router, *ZZNAT, error) {
	lf := logging.NewDefaultLoggerFactory()
	root, err := NewRouter(&RouterConfig{CIDR: "1.2.3.0/24", LoggerFactory: lf})
	if err != nil {
		return nil, nil, err
	}
	tt := t
	lan, err := NewRouter(&RouterConfig{CIDR: "10.0.0.0/8", StaticIPs: []string{mapped}, NATType: &tt, LoggerFactory: lf})
	if err != nil {
		return nil, nil, err
	}
	if err := root.AddRouter(lan); err != nil {
		return nil, nil, err
	}
	lan.stopFunc = func() {}
	return lan, &ZZNAT{N: lan.nat}, nil
}

// ZZRouterInbound hands the LAN router a chunk as its parent would (Router.onInboundChunk) and reports what it
// queued for forwarding into the LAN, if anything.
func ZZRouterInbound(r *Router, src, dst string, payload []byte) (nsrc, ndst string, data []byte, err error) {
	for {
		if _, ok := r.queue.pop(); !ok {
			break
		}
	}
	r.onInboundChunk(ZZUDPChunk(src, dst, payload))
	c, ok := r.queue.pop()
	if !ok {
		return "", "", nil, errNoNATBindingFound
	}
	return c.SourceAddr().String(), c.DestinationAddr().String(), c.UserData(), nil
}
