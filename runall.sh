#!/bin/bash
# runall.sh [quick|thorough] : run every registered check, print one line each, validate evidence
cd "$(dirname "$0")"
TIER=${1:-quick}
for i in $(seq -w 1 20); do
  id=C$i
  s=$(date +%s)
  out=$(./check.sh $id $TIER 2>&1); rc=$?
  e=$(( $(date +%s) - s ))
  echo "$id rc=$rc ${e}s $(echo "$out" | grep -E "^$id $TIER:|VIOLATION|KNOWN|error" | head -3 | tr '\n' ' ' | cut -c1-220)"
done
python3-vt - <<'PY'
import json,jsonschema,glob
sch=json.load(open('/root/.vp/EVIDENCE.schema.json'))
for f in sorted(glob.glob('/verif/evidence/C*.json')):
    try:
        jsonschema.validate(json.load(open(f)),sch)
    except Exception as e:
        print('INVALID',f,str(e)[:200])
print('evidence validated')
PY
