#!/usr/bin/env python3
"""Copy the shim, inserting //go:norace before every top-level function (race builds only):
shim bookkeeping is serialised by a hand-off the race detector cannot see and must not be instrumented."""
import os, re, sys
src, dst = sys.argv[1], sys.argv[2]
for root, _, files in os.walk(src):
    for f in files:
        if not f.endswith('.go'):
            continue
        p = os.path.join(root, f)
        rel = os.path.relpath(p, src)
        out = os.path.join(dst, rel)
        os.makedirs(os.path.dirname(out), exist_ok=True)
        lines = open(p).read().split('\n')
        res = []
        for i, ln in enumerate(lines):
            # functions marked //verif:instrumented stay visible to the detector on purpose (synthetic accesses)
            if ln.startswith('func ') and not (i > 0 and (lines[i-1].startswith('//go:norace') or lines[i-1].startswith('//verif:instrumented'))):
                res.append('//go:norace')
            res.append(ln)
        open(out, 'w').write('\n'.join(res))
