// instr rewrites the working-tree sources of pion/transport so that every
// synchronisation, channel, goroutine, clock, PRNG and socket operation goes
// through the zzvsched shim, and emits a `go build -overlay` file.  /repo itself
// is never modified.  Unsupported constructs make it fail loudly (exit 2).
package main

import (
	"bytes"
	"encoding/json"
	"flag"
	"fmt"
	"go/ast"
	"go/format"
	"go/token"
	"go/types"
	"os"
	"path/filepath"
	"sort"
	"strconv"
	"strings"

	"golang.org/x/tools/go/ast/astutil"
	"golang.org/x/tools/go/packages"
)

const (
	modPath  = "github.com/pion/transport/v3"
	shimPath = modPath + "/zzvsched"
)

func die(format string, a ...any) {
	fmt.Fprintf(os.Stderr, "instr: "+format+"\n", a...)
	os.Exit(2)
}

var timeFuncs = map[string]bool{"Now": true, "Since": true, "Until": true, "Sleep": true, "After": true,
	"AfterFunc": true, "NewTimer": true, "NewTicker": true, "Timer": true, "Ticker": true, "Tick": true}
var timeForbidden = map[string]bool{}

type rewriter struct {
	fset    *token.FileSet
	info    *types.Info
	pkgName string // short package dir, e.g. "udp"
	file    *ast.File
	fname   string
	n       int
	useShim bool
	useFake bool
	changed bool
}

func (rw *rewriter) fail(n ast.Node, format string, a ...any) {
	die("%s: unsupported construct: %s", rw.fset.Position(n.Pos()), fmt.Sprintf(format, a...))
}

func (rw *rewriter) shim(name string) ast.Expr {
	rw.useShim = true
	rw.changed = true
	return &ast.SelectorExpr{X: ast.NewIdent("zzvsched"), Sel: ast.NewIdent(name)}
}

func (rw *rewriter) fake(name string) ast.Expr {
	rw.useFake = true
	rw.changed = true
	return &ast.SelectorExpr{X: ast.NewIdent("zzfakenet"), Sel: ast.NewIdent(name)}
}

func (rw *rewriter) call(name string, args ...ast.Expr) *ast.CallExpr {
	return &ast.CallExpr{Fun: rw.shim(name), Args: args}
}

func (rw *rewriter) tmp(prefix string) string {
	rw.n++
	return fmt.Sprintf("_zz%s%d", prefix, rw.n)
}

func isRecv(e ast.Expr) (*ast.UnaryExpr, bool) {
	e = unparen(e)
	u, ok := e.(*ast.UnaryExpr)
	if ok && u.Op == token.ARROW {
		return u, true
	}
	return nil, false
}

func unparen(e ast.Expr) ast.Expr {
	for {
		p, ok := e.(*ast.ParenExpr)
		if !ok {
			return e
		}
		e = p.X
	}
}

func isBlank(e ast.Expr) bool {
	id, ok := e.(*ast.Ident)
	return ok && id.Name == "_"
}

// pass 1: select statements (post-order, so inner selects are done first).
func (rw *rewriter) rewriteSelects() {
	astutil.Apply(rw.file, nil, func(c *astutil.Cursor) bool {
		sel, ok := c.Node().(*ast.SelectStmt)
		if !ok {
			return true
		}
		if _, lab := c.Parent().(*ast.LabeledStmt); lab {
			rw.fail(sel, "labeled select")
		}
		c.Replace(rw.selectToSwitch(sel))
		return true
	})
}

func (rw *rewriter) selectToSwitch(sel *ast.SelectStmt) ast.Stmt {
	blk := &ast.BlockStmt{}
	sw := &ast.SwitchStmt{Body: &ast.BlockStmt{}}
	hasDefault := false
	var holders []ast.Expr
	id := rw.tmp("s")
	for _, cl := range sel.Body.List {
		cc := cl.(*ast.CommClause)
		if cc.Comm == nil {
			hasDefault = true
			sw.Body.List = append(sw.Body.List, &ast.CaseClause{
				List: []ast.Expr{&ast.UnaryExpr{Op: token.SUB, X: &ast.BasicLit{Kind: token.INT, Value: "1"}}},
				Body: cc.Body,
			})
			continue
		}
		idx := len(holders)
		h := fmt.Sprintf("%s_%d", id, idx)
		var pre []ast.Stmt
		switch s := cc.Comm.(type) {
		case *ast.SendStmt:
			blk.List = append(blk.List, &ast.AssignStmt{Lhs: []ast.Expr{ast.NewIdent(h)}, Tok: token.DEFINE,
				Rhs: []ast.Expr{rw.call("NewSend", s.Chan, s.Value)}})
		case *ast.ExprStmt:
			u, ok := isRecv(s.X)
			if !ok {
				rw.fail(s, "select case expression")
			}
			blk.List = append(blk.List, &ast.AssignStmt{Lhs: []ast.Expr{ast.NewIdent(h)}, Tok: token.DEFINE,
				Rhs: []ast.Expr{rw.call("NewRecv", u.X)}})
		case *ast.AssignStmt:
			if len(s.Rhs) != 1 || len(s.Lhs) > 2 {
				rw.fail(s, "select receive assignment shape")
			}
			u, ok := isRecv(s.Rhs[0])
			if !ok {
				rw.fail(s, "select case assignment without receive")
			}
			blk.List = append(blk.List, &ast.AssignStmt{Lhs: []ast.Expr{ast.NewIdent(h)}, Tok: token.DEFINE,
				Rhs: []ast.Expr{rw.call("NewRecv", u.X)}})
			var lhs, rhs []ast.Expr
			fields := []string{"V", "OK"}
			for i, l := range s.Lhs {
				if isBlank(l) {
					continue
				}
				lhs = append(lhs, l)
				rhs = append(rhs, &ast.SelectorExpr{X: ast.NewIdent(h), Sel: ast.NewIdent(fields[i])})
			}
			if len(lhs) > 0 {
				pre = append(pre, &ast.AssignStmt{Lhs: lhs, Tok: s.Tok, Rhs: rhs})
			}
		default:
			rw.fail(cc.Comm, "select communication clause %T", cc.Comm)
		}
		holders = append(holders, ast.NewIdent(h))
		sw.Body.List = append(sw.Body.List, &ast.CaseClause{
			List: []ast.Expr{&ast.BasicLit{Kind: token.INT, Value: strconv.Itoa(idx)}},
			Body: append(pre, cc.Body...),
		})
	}
	dflt := "false"
	if hasDefault {
		dflt = "true"
	}
	// a select whose clauses all terminate is a terminating statement; a switch is one
	// only with a default clause: render the select's default (or else its last clause) as `default:`
	{
		idx := -1
		for i, cl := range sw.Body.List {
			cc := cl.(*ast.CaseClause)
			if u, ok := cc.List[0].(*ast.UnaryExpr); ok && u.Op == token.SUB {
				idx = i
			}
		}
		if idx < 0 {
			idx = len(sw.Body.List) - 1
		}
		if idx >= 0 {
			sw.Body.List[idx].(*ast.CaseClause).List = nil
		}
	}
	args := append([]ast.Expr{ast.NewIdent(dflt)}, holders...)
	sw.Tag = rw.call("Select", args...)
	blk.List = append(blk.List, sw)
	return blk
}

func (rw *rewriter) isChan(e ast.Expr) bool {
	tv, ok := rw.info.Types[e]
	if !ok || tv.Type == nil {
		return false
	}
	_, isCh := tv.Type.Underlying().(*types.Chan)
	return isCh
}

func (rw *rewriter) pkgOf(id *ast.Ident) string {
	if obj, ok := rw.info.Uses[id]; ok {
		if pn, ok := obj.(*types.PkgName); ok {
			return pn.Imported().Path()
		}
	}
	return ""
}

// pass 2: everything else.
func (rw *rewriter) rewriteOps() {
	pre := func(c *astutil.Cursor) bool {
		switch n := c.Node().(type) {
		case *ast.AssignStmt:
			if len(n.Lhs) == 2 && len(n.Rhs) == 1 {
				if u, ok := isRecv(n.Rhs[0]); ok {
					n.Rhs[0] = rw.call("Recv2", u.X)
				}
			}
		case *ast.ValueSpec:
			if len(n.Names) == 2 && len(n.Values) == 1 {
				if u, ok := isRecv(n.Values[0]); ok {
					n.Values[0] = rw.call("Recv2", u.X)
				}
			}
		case *ast.SelectStmt:
			rw.fail(n, "select left after pass 1")
		}
		return true
	}
	post := func(c *astutil.Cursor) bool {
		switch n := c.Node().(type) {
		case *ast.SendStmt:
			c.Replace(&ast.ExprStmt{X: rw.call("Send", n.Chan, n.Value)})
		case *ast.UnaryExpr:
			if n.Op == token.ARROW {
				c.Replace(rw.call("Recv", n.X))
			}
		case *ast.CallExpr:
			if id, ok := n.Fun.(*ast.Ident); ok && id.Name == "close" {
				if _, isB := rw.info.Uses[id].(*types.Builtin); isB {
					n.Fun = rw.shim("Close")
				}
			}
		case *ast.RangeStmt:
			if rw.isChan(n.X) {
				if _, lab := c.Parent().(*ast.LabeledStmt); lab {
					rw.fail(n, "labeled range over channel")
				}
				c.Replace(rw.rangeChan(n))
			}
		case *ast.GoStmt:
			c.Replace(rw.goStmt(n))
		case *ast.SelectorExpr:
			id, ok := n.X.(*ast.Ident)
			if !ok {
				return true
			}
			switch rw.pkgOf(id) {
			case "time":
				if timeForbidden[n.Sel.Name] {
					rw.fail(n, "time.%s", n.Sel.Name)
				}
				if timeFuncs[n.Sel.Name] {
					c.Replace(rw.shim(n.Sel.Name))
				}
			case "net":
				if rw.pkgName == "udp" && n.Sel.Name == "ListenUDP" {
					c.Replace(rw.fake("ListenUDP"))
				}
			case "golang.org/x/net/ipv4":
				if rw.pkgName == "udp" && n.Sel.Name == "NewPacketConn" {
					c.Replace(rw.fake("NewPacketConn4"))
				}
			case "golang.org/x/net/ipv6":
				if rw.pkgName == "udp" && n.Sel.Name == "NewPacketConn" {
					c.Replace(rw.fake("NewPacketConn6"))
				}
			case "context":
				switch n.Sel.Name {
				case "WithCancel", "WithTimeout", "WithDeadline":
					if strings.HasPrefix(filepath.Base(rw.fname), "udpproxy") {
						// the UDP proxy bridges to real OS sockets and is outside every harness
						return true
					}
					c.Replace(rw.shim("Ctx" + n.Sel.Name))
				case "AfterFunc", "WithCancelCause", "WithTimeoutCause", "WithDeadlineCause", "WithoutCancel":
					if strings.HasPrefix(filepath.Base(rw.fname), "udpproxy") {
						return true
					}
					rw.fail(n, "context.%s inside instrumented code (cancellation invisible to the scheduler)", n.Sel.Name)
				}
			}
		}
		return true
	}
	astutil.Apply(rw.file, pre, post)
}

func (rw *rewriter) rangeChan(n *ast.RangeStmt) ast.Stmt {
	chv := rw.tmp("c")
	okv := rw.tmp("ok")
	blk := &ast.BlockStmt{}
	blk.List = append(blk.List, &ast.AssignStmt{Lhs: []ast.Expr{ast.NewIdent(chv)}, Tok: token.DEFINE, Rhs: []ast.Expr{n.X}})
	var lhs ast.Expr = ast.NewIdent("_")
	tok := token.DEFINE
	if n.Key != nil && !isBlank(n.Key) {
		lhs = n.Key
		tok = n.Tok
	}
	if n.Value != nil {
		rw.fail(n, "range over channel with two variables")
	}
	body := &ast.BlockStmt{}
	body.List = append(body.List,
		&ast.AssignStmt{Lhs: []ast.Expr{lhs, ast.NewIdent(okv)}, Tok: func() token.Token {
			if tok == token.ASSIGN {
				return token.ASSIGN
			}
			return token.DEFINE
		}(), Rhs: []ast.Expr{rw.call("Recv2", ast.NewIdent(chv))}},
		&ast.IfStmt{Cond: &ast.UnaryExpr{Op: token.NOT, X: ast.NewIdent(okv)}, Body: &ast.BlockStmt{List: []ast.Stmt{&ast.BranchStmt{Tok: token.BREAK}}}},
	)
	if tok == token.ASSIGN {
		// `for x = range ch`: ok variable must be declared
		blk.List = append(blk.List, &ast.DeclStmt{Decl: &ast.GenDecl{Tok: token.VAR, Specs: []ast.Spec{
			&ast.ValueSpec{Names: []*ast.Ident{ast.NewIdent(okv)}, Type: ast.NewIdent("bool")}}}})
	}
	body.List = append(body.List, n.Body.List...)
	blk.List = append(blk.List, &ast.ForStmt{Body: body})
	return blk
}

func (rw *rewriter) goStmt(n *ast.GoStmt) ast.Stmt {
	call := n.Call
	if call.Ellipsis.IsValid() {
		rw.fail(n, "go statement with variadic spread")
	}
	if fl, ok := call.Fun.(*ast.FuncLit); ok && len(call.Args) == 0 {
		return &ast.ExprStmt{X: rw.call("Go", fl)}
	}
	if id, ok := call.Fun.(*ast.Ident); ok {
		if _, isB := rw.info.Uses[id].(*types.Builtin); isB {
			rw.fail(n, "go on a builtin")
		}
	}
	if tv, ok := rw.info.Types[call.Fun]; ok && tv.IsType() {
		rw.fail(n, "go on a conversion")
	}
	blk := &ast.BlockStmt{}
	fv := rw.tmp("f")
	blk.List = append(blk.List, &ast.AssignStmt{Lhs: []ast.Expr{ast.NewIdent(fv)}, Tok: token.DEFINE, Rhs: []ast.Expr{call.Fun}})
	var args []ast.Expr
	for _, a := range call.Args {
		av := rw.tmp("a")
		blk.List = append(blk.List, &ast.AssignStmt{Lhs: []ast.Expr{ast.NewIdent(av)}, Tok: token.DEFINE, Rhs: []ast.Expr{a}})
		args = append(args, ast.NewIdent(av))
	}
	inner := &ast.FuncLit{Type: &ast.FuncType{Params: &ast.FieldList{}}, Body: &ast.BlockStmt{List: []ast.Stmt{
		&ast.ExprStmt{X: &ast.CallExpr{Fun: ast.NewIdent(fv), Args: args}}}}}
	blk.List = append(blk.List, &ast.ExprStmt{X: rw.call("Go", inner)})
	return blk
}

var importSwap = map[string]string{
	"sync":        shimPath + "/vsync",
	"sync/atomic": shimPath + "/vatomic",
	"math/rand":   shimPath + "/vrand",
	"math/rand/v2": shimPath + "/vrand",
}

func (rw *rewriter) fixImports() {
	// swap sync / atomic / rand
	for _, is := range rw.file.Imports {
		p, _ := strconv.Unquote(is.Path.Value)
		if np, ok := importSwap[p]; ok {
			local := filepath.Base(p)
			if is.Name != nil {
				local = is.Name.Name
			}
			is.Name = ast.NewIdent(local)
			is.Path.Value = strconv.Quote(np)
			rw.changed = true
		}
	}
	if !rw.changed {
		return
	}
	// imports that lost their last use become blank imports
	used := map[string]bool{}
	ast.Inspect(rw.file, func(n ast.Node) bool {
		if se, ok := n.(*ast.SelectorExpr); ok {
			if id, ok := se.X.(*ast.Ident); ok {
				if pn, ok := rw.info.Uses[id].(*types.PkgName); ok {
					used[pn.Name()] = true
				}
			}
		}
		return true
	})
	for _, is := range rw.file.Imports {
		if is.Name != nil && (is.Name.Name == "_" || is.Name.Name == ".") {
			continue
		}
		p, _ := strconv.Unquote(is.Path.Value)
		local := ""
		if is.Name != nil {
			local = is.Name.Name
		} else {
			local = importLocalName(p)
		}
		if !used[local] {
			is.Name = ast.NewIdent("_")
		}
	}
	if rw.useShim {
		astutil.AddNamedImport(rw.fset, rw.file, "zzvsched", shimPath)
	}
	if rw.useFake {
		astutil.AddNamedImport(rw.fset, rw.file, "zzfakenet", shimPath+"/fakenet")
	}
}

var knownLocal = map[string]string{
	"github.com/pion/transport/v3": "transport",
	"gopkg.in/yaml.v3":             "yaml",
}

func importLocalName(p string) string {
	if n, ok := knownLocal[p]; ok {
		return n
	}
	b := filepath.Base(p)
	if strings.HasPrefix(b, "v") && len(b) > 1 && b[1] >= '0' && b[1] <= '9' {
		b = filepath.Base(filepath.Dir(p))
	}
	return b
}

func (rw *rewriter) stripComments() {
	var keep []*ast.CommentGroup
	for _, cg := range rw.file.Comments {
		if cg.End() < rw.file.Package {
			keep = append(keep, cg)
			continue
		}
		for _, c := range cg.List {
			if strings.HasPrefix(c.Text, "//go:") && !strings.HasPrefix(c.Text, "//go:build") && !strings.HasPrefix(c.Text, "//go:generate") {
				rw.fail(c, "compiler directive %q would be lost", c.Text)
			}
		}
	}
	rw.file.Comments = keep
	// drop doc links that now dangle
	ast.Inspect(rw.file, func(n ast.Node) bool {
		switch d := n.(type) {
		case *ast.FuncDecl:
			d.Doc = nil
		case *ast.GenDecl:
			d.Doc = nil
		case *ast.Field:
			d.Doc, d.Comment = nil, nil
		case *ast.TypeSpec:
			d.Doc, d.Comment = nil, nil
		case *ast.ValueSpec:
			d.Doc, d.Comment = nil, nil
		case *ast.ImportSpec:
			d.Doc, d.Comment = nil, nil
		}
		return true
	})
}

type overlay struct {
	Replace map[string]string
}

var usesTryLock bool

func main() {
	repo := flag.String("repo", "/repo", "repository root")
	verif := flag.String("verif", "/verif", "verif root")
	out := flag.String("out", "/verif/.build/gen", "output directory")
	pkgsFlag := flag.String("pkgs", "deadline,packetio,dpipe,udp,netctx,connctx,vnet,test", "packages to rewrite")
	extra := flag.String("extra", "", "comma separated extra overlay entries dst=src")
	shimDir := flag.String("shim", "", "directory holding the zzvsched shim (default <verif>/shim/zzvsched)")
	flag.Parse()

	ov := overlay{Replace: map[string]string{}}
	if err := os.RemoveAll(*out); err != nil {
		die("%v", err)
	}
	var patterns []string
	for _, p := range strings.Split(*pkgsFlag, ",") {
		patterns = append(patterns, "./"+p)
	}
	cfg := &packages.Config{
		Mode: packages.NeedName | packages.NeedFiles | packages.NeedCompiledGoFiles | packages.NeedSyntax |
			packages.NeedTypes | packages.NeedTypesInfo | packages.NeedImports | packages.NeedDeps,
		Dir: *repo,
		Env: append(os.Environ(), "GOFLAGS=-mod=mod", "GOPROXY=off", "GOSUMDB=off", "GOTOOLCHAIN=local"),
	}
	pkgs, err := packages.Load(cfg, patterns...)
	if err != nil {
		die("load: %v", err)
	}
	nfiles := 0
	for _, pkg := range pkgs {
		if len(pkg.Errors) > 0 {
			for _, e := range pkg.Errors {
				fmt.Fprintf(os.Stderr, "instr: %s: %v\n", pkg.PkgPath, e)
			}
			die("package %s does not type-check; refusing to rewrite", pkg.PkgPath)
		}
		short := strings.TrimPrefix(pkg.PkgPath, modPath+"/")
		for i, f := range pkg.Syntax {
			fname := pkg.CompiledGoFiles[i]
			rw := &rewriter{fset: pkg.Fset, info: pkg.TypesInfo, pkgName: short, file: f, fname: fname}
			rw.rewriteSelects()
			rw.rewriteOps()
			rw.fixImports()
			if !rw.changed {
				continue
			}
			rw.stripComments()
			var buf bytes.Buffer
			if err := format.Node(&buf, pkg.Fset, f); err != nil {
				die("print %s: %v", fname, err)
			}
			dst := filepath.Join(*out, short, filepath.Base(fname))
			if err := os.MkdirAll(filepath.Dir(dst), 0o755); err != nil {
				die("%v", err)
			}
			hdr := fmt.Sprintf("// Code generated by /verif/tools/instr from %s; DO NOT EDIT.\n\n", fname)
			src := buf.Bytes()
			if bytes.Contains(src, []byte(".TryLock()")) || bytes.Contains(src, []byte(".TryRLock()")) {
				usesTryLock = true
			}
			// keep build constraints first
			if err := os.WriteFile(dst, insertHeader(src, hdr), 0o644); err != nil {
				die("%v", err)
			}
			ov.Replace[fname] = dst
			nfiles++
		}
	}
	// shim packages
	shimRoot := filepath.Join(*verif, "shim", "zzvsched")
	if *shimDir != "" {
		shimRoot = *shimDir
	}
	filepath.Walk(shimRoot, func(p string, fi os.FileInfo, err error) error {
		if err != nil || fi.IsDir() || !strings.HasSuffix(p, ".go") {
			return nil
		}
		rel, _ := filepath.Rel(shimRoot, p)
		ov.Replace[filepath.Join(*repo, "zzvsched", rel)] = p
		return nil
	})
	// features of the code under test the scheduler adapts to: code that uses TryLock can observe a mutex as
	// held without blocking, so a holder must be preemptible inside its critical section
	{
		dir := filepath.Join(*out, "features")
		_ = os.MkdirAll(dir, 0o755)
		dst := filepath.Join(dir, "zz_features.go")
		body := fmt.Sprintf("// Code generated by /verif/tools/instr; DO NOT EDIT.\n\npackage zzvsched\n\nfunc init() { yieldWhileHolding = %v }\n", usesTryLock)
		if err := os.WriteFile(dst, []byte(body), 0o644); err != nil {
			die("%v", err)
		}
		ov.Replace[filepath.Join(*repo, "zzvsched", "zz_features.go")] = dst
	}
	// legacy XOR implementation (build constraint lifted) as a virtual package
	{
		dir := filepath.Join(*out, "xorold")
		_ = os.MkdirAll(dir, 0o755)
		src, err := os.ReadFile(filepath.Join(*repo, "utils", "xor", "xor_old.go"))
		var body string
		if err != nil {
			body = "package xor\n\nconst Present = false\n\nfunc XorBytes(dst, a, b []byte) int { panic(\"utils/xor/xor_old.go is not present\") }\n"
		} else {
			var keep []string
			for _, ln := range strings.Split(string(src), "\n") {
				t := strings.TrimSpace(ln)
				if strings.HasPrefix(t, "//go:build") || strings.HasPrefix(t, "// +build") {
					continue
				}
				keep = append(keep, ln)
			}
			body = strings.Join(keep, "\n") + "\n\nconst Present = true\n"
		}
		dst := filepath.Join(dir, "xor_old.go")
		if err := os.WriteFile(dst, []byte(body), 0o644); err != nil {
			die("%v", err)
		}
		ov.Replace[filepath.Join(*repo, "zzvsched", "xorold", "xor_old.go")] = dst
	}
	// in-package harness files
	inRoot := filepath.Join(*verif, "inpkg")
	filepath.Walk(inRoot, func(p string, fi os.FileInfo, err error) error {
		if err != nil || fi.IsDir() || !strings.HasSuffix(p, ".go") {
			return nil
		}
		rel, _ := filepath.Rel(inRoot, p)
		ov.Replace[filepath.Join(*repo, rel)] = p
		return nil
	})
	if *extra != "" {
		for _, kv := range strings.Split(*extra, ",") {
			parts := strings.SplitN(kv, "=", 2)
			if len(parts) == 2 {
				ov.Replace[parts[0]] = parts[1]
			}
		}
	}
	keys := make([]string, 0, len(ov.Replace))
	for k := range ov.Replace {
		keys = append(keys, k)
	}
	sort.Strings(keys)
	b, _ := json.MarshalIndent(ov, "", " ")
	if err := os.MkdirAll(filepath.Dir(*out), 0o755); err != nil {
		die("%v", err)
	}
	ovName := "overlay.json"
	if strings.HasSuffix(*out, "-race") {
		ovName = "overlay-race.json"
	}
	if err := os.WriteFile(filepath.Join(filepath.Dir(*out), ovName), b, 0o644); err != nil {
		die("%v", err)
	}
	fmt.Fprintf(os.Stderr, "instr: rewrote %d files, overlay has %d entries\n", nfiles, len(ov.Replace))
}

func insertHeader(src []byte, hdr string) []byte {
	// the header goes after any leading //go:build block so constraints stay valid;
	// simplest: append it as a trailing comment instead.
	return append(src, []byte("\n"+hdr)...)
}
