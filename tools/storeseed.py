#!/usr/bin/env python3
"""storeseed.py <src_dir> <dest_id> <round> <caught_by,comma> <detection text>
Copies a confirmed seeded change into seeded/<dest_id>/ (patch.diff, demo as *.go.txt, demo_cmd.txt, meta.txt, meta.json)."""
import sys, os, json, shutil, glob
src, dest, rnd, caught, det = sys.argv[1:6]
prop = dest.split('-')[0]
root = os.path.dirname(os.path.dirname(os.path.abspath(__file__)))
title = ''
for l in open(os.path.join(root, 'properties.jsonl')):
    d = json.loads(l)
    if d['id'] == prop:
        title = d['title']
out = os.path.join(root, 'seeded', dest)
os.makedirs(out, exist_ok=True)
shutil.copy(os.path.join(src, 'patch.diff'), out)
for f in glob.glob(os.path.join(src, '*_test.go')):
    shutil.copy(f, os.path.join(out, os.path.basename(f) + '.txt'))
for f in ('demo_cmd.txt', 'meta.txt'):
    if os.path.exists(os.path.join(src, f)):
        shutil.copy(os.path.join(src, f), out)
meta = {
    'property': prop, 'title': title, 'round': int(rnd),
    'origin': 'independent sub-agent given only the property text, one-line summaries of earlier seeded changes to avoid, a focus for the round, and a scratch worktree',
    'needs_to_manifest': open(os.path.join(src, 'meta.txt')).read().strip() if os.path.exists(os.path.join(src, 'meta.txt')) else '',
    'demo_cmd': [l.strip() for l in open(os.path.join(src, 'demo_cmd.txt')) if 'go test' in l][0],
    'confirmed_by_me': {
        'how': 'scratch copy under /tmp (removed afterwards): git apply; go test of the touched package (up to 3 tries for vnet); demo with the change; demo without it; ./check.sh with VERIF_REPO pointing at the copy',
        'existing_tests_with_change': 'pass', 'demo_with_change': 'fail', 'demo_without_change': 'pass'},
    'caught_by_checks': caught.split(','),
    'detection': det,
}
json.dump(meta, open(os.path.join(out, 'meta.json'), 'w'), indent=1)
print('stored', out)
