//go:build verif

package main

import (
	"fmt"
	"time"

	"github.com/pion/transport/v3/zzvsched"
)

func runMain(f func() []string) []string {
	var out []string
	ex := zzvsched.Run(zzvsched.Config{Horizon: 3 * time.Hour, Go123: false}, func() { out = f() })
	for _, p := range ex.Panics {
		out = append(out, "PANIC in "+p.Thread+": "+p.Value)
	}
	if len(ex.Parked) > 0 && out == nil {
		out = append(out, fmt.Sprint("BLOCKED: ", ex.Parked))
	}
	return out
}
