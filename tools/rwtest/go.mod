module github.com/pion/transport/v3

go 1.20

require golang.org/x/net v0.34.0

require golang.org/x/sys v0.29.0 // indirect
