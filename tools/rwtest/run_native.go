//go:build !verif

package main

func runMain(f func() []string) []string { return f() }
