package main

import (
	"fmt"

	"github.com/pion/transport/v3/rw"
)

func main() {
	for _, ln := range runMain(rw.Run) {
		fmt.Println(ln)
	}
}
