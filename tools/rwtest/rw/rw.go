// Package rw exercises, with deterministic output, every construct the rewriting pass
// transforms.  The same source is run natively and rewritten (under the scheduler's default
// schedule); the two transcripts must be identical.
package rw

import (
	"context"
	"fmt"
	"sync"
	"sync/atomic"
	"time"
)

type log struct {
	mu    sync.Mutex
	lines []string
}

func (l *log) add(format string, a ...interface{}) {
	l.mu.Lock()
	l.lines = append(l.lines, fmt.Sprintf(format, a...))
	l.mu.Unlock()
}

// Run returns the transcript.
func Run() []string {
	l := &log{}
	selectDefault(l)
	bufferedAndClosed(l)
	rendezvous(l)
	rangeOverChannel(l)
	goArguments(l)
	labelsAndBreaks(l)
	syncPrimitives(l)
	timers(l)
	selectSendAndNil(l)
	deferClose(l)
	terminatingSelect(l)
	condAndTypedAtomics(l)
	contexts(l)
	return l.lines
}

func selectDefault(l *log) {
	ch := make(chan int, 1)
	select {
	case v := <-ch:
		l.add("selectDefault: unexpected %d", v)
	default:
		l.add("selectDefault: default taken")
	}
	ch <- 7
	select {
	case v, ok := <-ch:
		l.add("selectDefault: got %d %v", v, ok)
	default:
		l.add("selectDefault: unexpected default")
	}
	select {
	case ch <- 8:
		l.add("selectDefault: sent, len=%d cap=%d", len(ch), cap(ch))
	default:
		l.add("selectDefault: unexpected default on send")
	}
	select {
	case ch <- 9:
		l.add("selectDefault: unexpected send into a full channel")
	default:
		l.add("selectDefault: full, default taken")
	}
}

func bufferedAndClosed(l *log) {
	ch := make(chan string, 3)
	ch <- "a"
	ch <- "b"
	close(ch)
	v, ok := <-ch
	l.add("closed: %q %v", v, ok)
	l.add("closed: %q", <-ch)
	v, ok = <-ch
	l.add("closed: %q %v", v, ok)
	var v2, ok2 = <-ch
	l.add("closed: %q %v", v2, ok2)
	func() {
		defer func() { l.add("closed: send on closed channel panics: %v", recover() != nil) }()
		ch <- "c"
	}()
	func() {
		defer func() { l.add("closed: double close panics: %v", recover() != nil) }()
		close(ch)
	}()
}

func rendezvous(l *log) {
	ch := make(chan int)
	done := make(chan struct{})
	go func() {
		for i := 0; i < 3; i++ {
			ch <- i * i
		}
		close(done)
	}()
	sum := 0
	for i := 0; i < 3; i++ {
		sum += <-ch
	}
	<-done
	l.add("rendezvous: sum=%d", sum)
	// receiver first
	res := make(chan int)
	go func() { res <- (<-ch) + 100 }()
	ch <- 5
	l.add("rendezvous: echoed %d", <-res)
}

func rangeOverChannel(l *log) {
	ch := make(chan int, 4)
	for i := 1; i <= 4; i++ {
		ch <- i
	}
	close(ch)
	n := 0
	for v := range ch {
		if v == 2 {
			continue
		}
		n += v
		if v == 3 {
			break
		}
	}
	l.add("range: n=%d left=%d", n, len(ch))
	var x int
	for x = range ch {
		l.add("range: assigned %d", x)
	}
	for range ch {
		l.add("range: unreachable")
	}
}

func add3(a, b, c int) int { return a + b + c }

type acc struct{ v int }

func (a *acc) put(out chan int, k int) { out <- a.v + k }

func goArguments(l *log) {
	out := make(chan int, 4)
	x := 1
	go func(a int) { out <- a }(x)
	x = 2
	l.add("go: argument evaluated at the go statement: %d", <-out)
	a := &acc{v: 10}
	go a.put(out, x)
	a = &acc{v: 1000}
	x = 3
	l.add("go: receiver and arguments bound at the go statement: %d", <-out)
	f := func(k int) { out <- add3(k, k, k) }
	go f(x)
	f = nil
	l.add("go: function value bound at the go statement: %d", <-out)
	_ = a
}

func labelsAndBreaks(l *log) {
	ch := make(chan int, 8)
	for i := 0; i < 6; i++ {
		ch <- i
	}
	count := 0
outer:
	for {
		select {
		case v := <-ch:
			if v == 1 {
				break // leaves the select only
			}
			if v == 2 {
				continue outer
			}
			if v == 4 {
				break outer
			}
			count += 10
		}
		count++
	}
	l.add("labels: count=%d left=%d", count, len(ch))
	// select inside switch inside for
	n := 0
	for i := 0; i < 3; i++ {
		switch i {
		case 1:
			select {
			case <-ch:
				n += 100
			default:
				n += 1000
			}
		default:
			n++
		}
	}
	l.add("labels: n=%d", n)
}

func syncPrimitives(l *log) {
	var mu sync.Mutex
	var rw sync.RWMutex
	var wg sync.WaitGroup
	var once sync.Once
	var cnt int32
	var val atomic.Value
	total := 0
	for i := 0; i < 4; i++ {
		wg.Add(1)
		go func(i int) {
			defer wg.Done()
			once.Do(func() { val.Store("first") })
			mu.Lock()
			total += i
			mu.Unlock()
			rw.RLock()
			_ = total
			rw.RUnlock()
			atomic.AddInt32(&cnt, 1)
		}(i)
	}
	wg.Wait()
	rw.Lock()
	total *= 2
	rw.Unlock()
	l.add("sync: total=%d cnt=%d once=%v", total, atomic.LoadInt32(&cnt), val.Load())
}

func timers(l *log) {
	start := time.Now()
	fired := make(chan string, 4)
	time.AfterFunc(20*time.Millisecond, func() { fired <- "20ms" })
	t2 := time.AfterFunc(5*time.Millisecond, func() { fired <- "5ms" })
	l.add("timers: first %s", <-fired)
	l.add("timers: stop of a fired AfterFunc: %v", t2.Stop())
	t3 := time.AfterFunc(time.Hour, func() { fired <- "never" })
	l.add("timers: stop of a pending AfterFunc: %v", t3.Stop())
	l.add("timers: second %s", <-fired)
	if el := time.Since(start); el < 20*time.Millisecond || el > 2*time.Second {
		l.add("timers: implausible elapsed time %v", el)
	}
	tm := time.NewTimer(5 * time.Millisecond)
	<-tm.C
	l.add("timers: reset of an expired timer: %v", tm.Reset(5*time.Millisecond))
	l.add("timers: stop of an armed timer: %v", tm.Stop())
	tm.Reset(time.Millisecond)
	select {
	case <-tm.C:
		l.add("timers: tick received")
	case <-time.After(time.Second):
		l.add("timers: lost tick")
	}
	tk := time.NewTicker(2 * time.Millisecond)
	n := 0
	for range tk.C {
		n++
		if n == 3 {
			tk.Stop()
			break
		}
	}
	l.add("timers: ticks=%d", n)
	time.Sleep(time.Millisecond)
	l.add("timers: until past is negative: %v", time.Until(start) < 0)
}

func selectSendAndNil(l *log) {
	var nilch chan int
	out := make(chan int, 1)
	done := make(chan struct{})
	select {
	case <-nilch:
		l.add("nil: unexpected receive from nil channel")
	case nilch <- 1:
		l.add("nil: unexpected send to nil channel")
	case out <- 42:
		l.add("nil: the only ready case ran, len=%d", len(out))
	}
	go func() {
		time.Sleep(time.Millisecond)
		close(done)
	}()
	select {
	case <-nilch:
	case <-done:
		l.add("nil: closed channel wakes the select")
	}
}

func deferClose(l *log) {
	ch := make(chan struct{})
	func() {
		defer close(ch)
	}()
	_, ok := <-ch
	l.add("defer: closed=%v", !ok)
}

// terminatingSelect has no statement after the select: it must stay a terminating statement.
func terminatingSelect(l *log) {
	l.add("terminating: %d", pick(make(chan int), closed()))
}

func closed() chan struct{} {
	c := make(chan struct{})
	close(c)
	return c
}

func pick(a chan int, b chan struct{}) int {
	select {
	case v := <-a:
		return v
	case <-b:
		return -1
	}
}

func condAndTypedAtomics(l *log) {
	var mu sync.Mutex
	cond := sync.NewCond(&mu)
	var ready atomic.Bool
	var n atomic.Int32
	var total atomic.Uint64
	var p atomic.Pointer[string]
	var wg sync.WaitGroup
	for i := 0; i < 3; i++ {
		wg.Add(1)
		go func(i int) {
			defer wg.Done()
			mu.Lock()
			for !ready.Load() {
				cond.Wait()
			}
			mu.Unlock()
			n.Add(1)
			total.Add(uint64(i + 1))
		}(i)
	}
	time.Sleep(time.Millisecond)
	s := "published"
	p.Store(&s)
	mu.Lock()
	ready.Store(true)
	cond.Broadcast()
	mu.Unlock()
	wg.Wait()
	l.add("cond: n=%d total=%d ptr=%s swapped=%v", n.Load(), total.Load(), *p.Load(), n.CompareAndSwap(3, 30))
}

func contexts(l *log) {
	ctx, cancel := context.WithTimeout(context.Background(), 5*time.Millisecond)
	defer cancel()
	select {
	case <-ctx.Done():
		l.add("ctx: timeout fired: %v", ctx.Err())
	case <-time.After(time.Second):
		l.add("ctx: timeout lost")
	}
	parent, pcancel := context.WithCancel(context.Background())
	child, ccancel := context.WithTimeout(parent, time.Hour)
	defer ccancel()
	go func() {
		time.Sleep(time.Millisecond)
		pcancel()
	}()
	<-child.Done()
	l.add("ctx: child cancelled by parent: %v", child.Err())
	_, has := child.Deadline()
	l.add("ctx: child has deadline: %v", has)
	tick := time.Tick(time.Millisecond)
	<-tick
	<-tick
	l.add("ctx: two ticks")
}
