#!/usr/bin/env python3
"""mkseedround.py <dir> <round> <ID...> : create a scratch worktree of /repo per property under <dir>/<ID> and a prompt
<dir>/out/<ID>/prompt.txt from tools/seedprompt.tmpl (property text + the one-line ideas of earlier seeds to avoid)."""
import sys, os, json, glob, subprocess
root = os.path.dirname(os.path.dirname(os.path.abspath(__file__)))
d, rnd, ids = sys.argv[1], int(sys.argv[2]), sys.argv[3:]
props = {}
for l in open(os.path.join(root, 'properties.jsonl')):
    p = json.loads(l); props[p['id']] = p
tmpl = open(os.path.join(root, 'tools', 'seedprompt.tmpl')).read()
SCHED = {'C01', 'C06', 'C08', 'C09', 'C10', 'C11', 'C12', 'C14', 'C15', 'C17', 'C19'}
for i in ids:
    p = props[i]
    text = "%s: %s\n\nSTATEMENT: %s\n\nQUANTIFIER: %s\n\nFILES INVOLVED: %s\n" % (i, p['title'], p['statement'], p['quantifier']['text'], ', '.join(p['anchors']['files']))
    if os.environ.get('SEED_WITH_MECHANISMS'):
        text += "\nMECHANISMS the property rests on (from the property record):\n" + "\n".join("  - %s (%s)" % (m['name'], m['where']) for m in p['anchors']['mechanism']) + "\n"
    earlier = []
    for f in sorted(glob.glob(os.path.join(root, 'seeded', i + '*', 'meta.json'))):
        m = json.load(open(f))
        first = m['needs_to_manifest'].strip().split('\n')[0][:230]
        earlier.append('  - ' + first)
    if i in SCHED:
        focus = ("a CONCURRENCY bug: the change must be harmless in every sequential / single-goroutine use and must only violate the property under a specific interleaving of two or more goroutines "
                 "(a check-then-act window, an unlock moved, a flag read outside its lock, a notification sent before the state it announces, a wait that can miss a wake-up, a counter updated in two steps, "
                 "a timer/callback racing with a setter, two locks taken in a different order, a goroutine started before the state it needs is published, shutdown racing with work in flight ...). "
                 "Widen the window only in the DEMO (reflection/unsafe hooks, Gosched loops, many iterations), not in the library change.")
    else:
        focus = ("a SEQUENTIAL defect in a place the earlier attempts did not touch: a rarely used entry point, option or setter, an error path, an interaction between two features, state that survives a reset / close / re-open / expiry, "
                 "an argument at the extreme of its legal range, or a helper shared by two paths of which only one is commonly exercised.")
    focus = os.environ.get('SEED_FOCUS_SCHED' if i in SCHED else 'SEED_FOCUS_SEQ', focus)
    focus += "\nEarlier attempts for this property (do NOT repeat these ideas or touch the same few lines):\n" + '\n'.join(earlier)
    os.makedirs(os.path.join(d, 'out', i), exist_ok=True)
    wt = os.path.join(d, i)
    if not os.path.exists(wt):
        subprocess.check_call(['git', '-C', '/repo', 'worktree', 'add', '--detach', '-q', wt, 'HEAD'])
    open(os.path.join(d, 'out', i, 'prompt.txt'), 'w').write(tmpl.replace('@DIR@', d).replace('@ID@', i).replace('@PROP@', text).replace('@FOCUS@', focus))
    print('prepared', i)
