#!/bin/bash
# rwtest.sh: validate the rewriting pass + shim on a program that uses every rewritten construct:
# native transcript == transcript of the rewritten program under the scheduler's default schedule.
cd "$(dirname "$0")/.."; . ./env.sh
B=$VERIF_ROOT/.build/rwtest; rm -rf $B; mkdir -p $B
T=$VERIF_ROOT/tools/rwtest
(cd $T && go run . > $B/native.txt 2>$B/native.err) || { echo "rwtest: native run failed"; cat $B/native.err; exit 2; }
.bin/instr -repo $T -verif $VERIF_ROOT -out $B/gen -pkgs rw >$B/instr.log 2>&1 || { echo "rwtest: instr failed"; cat $B/instr.log; exit 2; }
(cd $T && go run -tags verif -overlay $B/overlay.json . > $B/rewritten.txt 2>$B/rewritten.err) || { echo "rwtest: rewritten run failed"; cat $B/rewritten.err | head -30; exit 2; }
if diff $B/native.txt $B/rewritten.txt > $B/diff.txt; then echo "rwtest ok: $(wc -l < $B/native.txt) transcript lines identical"; else echo "rwtest: transcripts differ"; cat $B/diff.txt; exit 2; fi
