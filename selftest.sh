#!/bin/bash
# selftest.sh [ID...] : run every mutant under mutants/<ID>/ against the quick check of <ID> (scratch copies under /tmp,
# removed afterwards) and require a VIOLATION for each; prints one line per mutant.
cd "$(dirname "$0")"
. ./env.sh
IDS="$@"; [ -z "$IDS" ] && IDS=$(ls mutants)
J=${SELFTEST_JOBS:-4}
run_one() { m=$1; id=$(basename $(dirname $m)); out=$(VERIF_BUDGET_S=900 VERIF_WORKERS=4 ./mutate.sh $m $id quick 2>&1); if echo "$out" | grep -q "^VIOLATION property=$id"; then echo "CAUGHT  $m"; else echo "MISSED  $m :: $(echo "$out" | tail -2 | tr '\n' ' ')"; fi; }
export -f run_one
for id in $IDS; do ls mutants/$id/*.diff 2>/dev/null; done | xargs -P $J -I{} bash -c 'run_one {}'
