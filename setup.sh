#!/bin/bash
# Build the framework from files on disk only (offline) and warm the Go build caches.
cd "$(dirname "$0")"
. ./env.sh
set -e
mkdir -p .bin .build evidence replays
(cd tools/instr && go build -o ../../.bin/instr .)
./build.sh >/dev/null
./build.sh race >/dev/null || echo "setup: race build failed (C19 will report a machinery error)" >&2
./tools/rwtest.sh || echo "setup: WARNING rewriting-pass self-test failed" >&2
echo "setup ok"
