# sourced by every script: offline Go settings
export GOFLAGS=-mod=mod GOPROXY=off GOSUMDB=off GOTOOLCHAIN=local
export VERIF_ROOT="${VERIF_ROOT:-$(cd "$(dirname "${BASH_SOURCE[0]}")" && pwd)}"
export VERIF_REPO="${VERIF_REPO:-/repo}"
