#!/bin/bash
# check.sh <ID> <quick|thorough>     run the check of one property against $VERIF_REPO (default /repo)
# check.sh <ID> --replay <file>      re-execute one recorded violating execution, with trace
# Exit: 0 property held on everything explored, 1 VIOLATION printed, 2 machinery error.
cd "$(dirname "$0")"
. ./env.sh
MODE=""
case "$1" in C19) MODE=race;; esac
BIN=$(./build.sh $MODE) || { echo "check.sh: build failed (machinery error, not a violation)" >&2; exit 2; }
export VERIF_TIER="${2}"
if [ "$MODE" = race ] && [ "$2" = "--replay" ]; then
  RL="$VERIF_ROOT/.build/race-replay.$$"; export GORACE="halt_on_error=0 exitcode=0 log_path=$RL" VERIF_RACELOG="$RL"
fi
exec "$BIN" "$@"
