package main

import (
	"fmt"
	"net"
	"sort"
	"strconv"
	"strings"
	"time"

	"github.com/pion/logging"
	"github.com/pion/transport/v3/vnet"
	"github.com/pion/transport/v3/zzvsched"
)

// C13 — vnet never hands out an IP or socket address that is already in use.

// ---------------------------------------------------------------- (a) router address assignment

type addrSys struct {
	cidr     string
	ipnet    *net.IPNet
	r        *vnet.Router
	used     map[string]string // address -> who holds it
	statics  map[string]bool   // statics already used in this history (each at most once)
	autos    int
	alphabet []string
	n        int
	lastOp   *string
}

func newAddrSys(cidr string, alphabet []string, lastOp *string) *addrSys {
	r, err := vnet.NewRouter(&vnet.RouterConfig{CIDR: cidr, LoggerFactory: logging.NewDefaultLoggerFactory()})
	if err != nil {
		panic(err)
	}
	_, ipn, _ := net.ParseCIDR(cidr)
	return &addrSys{cidr: cidr, ipnet: ipn, r: r, used: map[string]string{}, statics: map[string]bool{}, alphabet: alphabet, lastOp: lastOp}
}

func (s *addrSys) hostIP(last int) string {
	ip := append(net.IP(nil), s.ipnet.IP.To4()...)
	ip[3] = byte(last)
	return ip.String()
}

func (s *addrSys) Ops() []string {
	var out []string
	for _, op := range s.alphabet {
		ok := true
		for _, f := range strings.Fields(op)[1:] {
			if s.statics[f] {
				ok = false // the same static address twice is outside the property
			}
		}
		if ok {
			out = append(out, op)
		}
	}
	return out
}

func (s *addrSys) Apply(op string) (obs, sig, msg string) {
	defer panicAsViolation(op, &sig, &msg)
	if s.lastOp != nil {
		*s.lastOp = op
	}
	f := strings.Fields(op)
	s.n++
	who := fmt.Sprintf("#%d(%s)", s.n, op)
	var statics []string
	for _, x := range f[1:] {
		last, _ := strconv.Atoi(x)
		if x == "out" {
			statics = append(statics, "172.31.0.9")
		} else {
			statics = append(statics, s.hostIP(last))
		}
		s.statics[x] = true
	}
	var err error
	var got []string
	switch f[0] {
	case "net":
		n, e := vnet.NewNet(&vnet.NetConfig{StaticIPs: statics})
		if e != nil {
			panic(e)
		}
		err = s.r.AddNet(n)
		got = vnet.ZZNetAddrs(n)
	case "router":
		c, e := vnet.NewRouter(&vnet.RouterConfig{CIDR: "192.168.77.0/24", StaticIPs: statics, LoggerFactory: logging.NewDefaultLoggerFactory()})
		if e != nil {
			panic(e)
		}
		err = s.r.AddRouter(c)
		got = vnet.ZZRouterAddrs(c)
	}
	auto := len(statics) == 0
	if err != nil {
		obs = "error"
		// an error is always an acceptable way to refuse; but an automatic attachment may only
		// fail when the address space is used up or the next address falls outside the subnet
		return obs, "", ""
	}
	obs = "ok"
	for _, a := range got {
		ip := net.ParseIP(a)
		if !s.ipnet.Contains(ip) {
			return obs, "C13 address-outside-subnet", fmt.Sprintf("router %s: attachment %s succeeded with address %s outside the subnet", s.cidr, who, a)
		}
		if holder, dup := s.used[a]; dup && auto {
			return obs, "C13 auto-address-in-use", fmt.Sprintf("router %s: attachment %s was automatically given %s, which %s already holds", s.cidr, who, a, holder)
		}
		if _, dup := s.used[a]; !dup {
			s.used[a] = who
		}
	}
	if auto {
		s.autos++
		if len(got) != 1 {
			return obs, "C13 auto-address-count", fmt.Sprintf("router %s: automatic attachment %s got addresses %v", s.cidr, who, got)
		}
	}
	return obs, "", ""
}

func (s *addrSys) Key() stateKey {
	var u []string
	for a := range s.used {
		u = append(u, a)
	}
	sort.Strings(u)
	var st []string
	for a := range s.statics {
		st = append(st, a)
	}
	sort.Strings(st)
	nics := vnet.ZZRouterNICs(s.r)
	sort.Strings(nics)
	return strKey(fmt.Sprint(u, st, nics, s.autos))
}

// ---------------------------------------------------------------- (b) host bind table

type bindSock struct {
	ip   string // "*" for wildcard
	port int
	conn net.PacketConn
	id   int
}

type bindSys struct {
	n        *vnet.Net
	socks    []*bindSock
	closedS  []*bindSock // closed sockets (a stale handle may be closed again)
	next     int
	alphabet []string
	lastOp   *string
	own      []string
}

var bindRand int64

func newBindSys(ips []string, alphabet []string, lastOp *string) *bindSys {
	r, err := vnet.NewRouter(&vnet.RouterConfig{CIDR: "10.0.0.0/24", LoggerFactory: logging.NewDefaultLoggerFactory()})
	if err != nil {
		panic(err)
	}
	n, _ := vnet.NewNet(&vnet.NetConfig{StaticIPs: ips})
	if err := r.AddNet(n); err != nil {
		panic(err)
	}
	return &bindSys{n: n, alphabet: alphabet, lastOp: lastOp, own: ips}
}

func (s *bindSys) ipOf(name string) string {
	switch name {
	case "own1":
		return s.own[0]
	case "own2":
		if len(s.own) > 1 {
			return s.own[1]
		}
		return "10.0.0.77" // not owned on a single-address host
	case "any", "anynil":
		return "0.0.0.0" // "anynil": a non-nil *net.UDPAddr whose IP is nil (the standard library's wildcard spelling), port kept
	case "lo":
		return "127.0.0.1"
	case "lo2":
		return "127.0.0.2" // in the loopback range but not an address of the host (its loopback interface holds 127.0.0.1)
	}
	return "10.9.9.9" // foreign
}

func (s *bindSys) owned(ip string) bool {
	if ip == "0.0.0.0" || ip == "127.0.0.1" {
		return true
	}
	for _, o := range s.own {
		if o == ip {
			return true
		}
	}
	return false
}

func (s *bindSys) conflict(ip string, port int) bool {
	for _, k := range s.socks {
		if k.port == port && (k.ip == "0.0.0.0" || ip == "0.0.0.0" || k.ip == ip) {
			return true
		}
	}
	return false
}

func (s *bindSys) Ops() []string {
	var out []string
	for _, op := range s.alphabet {
		f := strings.Fields(op)
		if f[0] == "close" {
			i, _ := strconv.Atoi(f[1])
			if i >= len(s.socks) {
				continue
			}
		}
		if f[0] == "reclose" && len(s.closedS) == 0 {
			continue
		}
		out = append(out, op)
	}
	return out
}

func (s *bindSys) Apply(op string) (obs, sig, msg string) {
	defer panicAsViolation(op, &sig, &msg)
	if s.lastOp != nil {
		*s.lastOp = op
	}
	f := strings.Fields(op)
	switch f[0] {
	case "listenudp", "listenpacket", "dial", "dialudp":
		var ip string
		port := 0
		if f[0] == "dial" {
			// Dial picks the source itself: loopback for a loopback destination, else the first address
			if f[1] == "lo" {
				ip = "127.0.0.1"
			} else {
				ip = s.own[0]
			}
		} else {
			ip = s.ipOf(f[1])
			port, _ = strconv.Atoi(f[2])
		}
		if len(f) > 3 {
			bindRand, _ = strconv.ParseInt(f[3], 10, 64)
		} else {
			bindRand = 0
		}
		var c net.PacketConn
		var err error
		switch f[0] {
		case "listenudp":
			la := &net.UDPAddr{IP: net.ParseIP(ip), Port: port}
			if f[1] == "anynil" {
				la.IP = nil
			} else if s.next%2 == 1 {
				la.IP = la.IP.To4() // every other bind spells its IPv4 address in the 4-byte form
			}
			c, err = s.n.ListenUDP("udp", la)
		case "listenpacket":
			c, err = s.n.ListenPacket("udp", net.JoinHostPort(ip, strconv.Itoa(port)))
		case "dialudp":
			la := &net.UDPAddr{IP: net.ParseIP(ip), Port: port}
			if f[1] == "anynil" {
				la.IP = nil
			}
			c, err = s.n.DialUDP("udp", la, &net.UDPAddr{IP: net.ParseIP("10.0.0.200"), Port: 9})
		case "dial":
			dst := "10.0.0.200:9"
			if f[1] == "lo" {
				dst = "127.0.0.1:9"
			}
			var cc net.Conn
			cc, err = s.n.Dial("udp", dst)
			if err == nil {
				c = cc.(net.PacketConn)
			}
		}
		// model
		var want bool
		why := ""
		switch {
		case !s.owned(ip):
			want, why = false, "the address does not belong to the host"
		case port != 0:
			want = !s.conflict(ip, port)
			why = "an open socket already covers that address and port"
		default:
			for p := 5000; p <= 5999; p++ {
				if !s.conflict(ip, p) {
					want = true
					break
				}
			}
			why = "no port in 5000-5999 is free"
		}
		if err != nil {
			obs = "bind:err"
			if want {
				return obs, "C13 bind-refused", fmt.Sprintf("%s failed (%v) although the address belongs to the host and no open socket covers it (open: %s)", op, err, s.open())
			}
			return obs, "", ""
		}
		obs = "bind:ok"
		if !want {
			return obs, "C13 bind-conflict-accepted", fmt.Sprintf("%s succeeded although %s (open: %s)", op, why, s.open())
		}
		la := c.LocalAddr().(*net.UDPAddr)
		if port == 0 {
			if la.Port < 5000 || la.Port > 5999 {
				return obs, "C13 ephemeral-port-range", fmt.Sprintf("%s was given port %d, outside 5000-5999", op, la.Port)
			}
			if s.conflict(ip, la.Port) {
				return obs, "C13 ephemeral-port-in-use", fmt.Sprintf("%s was given %s:%d, which an open socket already covers (open: %s)", op, ip, la.Port, s.open())
			}
		} else if la.Port != port {
			return obs, "C13 wrong-port", fmt.Sprintf("%s got port %d", op, la.Port)
		}
		s.next++
		s.socks = append(s.socks, &bindSock{ip: ip, port: la.Port, conn: c, id: s.next})
	case "close":
		i, _ := strconv.Atoi(f[1])
		k := s.socks[i]
		_ = k.conn.Close()
		s.socks = append(s.socks[:i:i], s.socks[i+1:]...)
		s.closedS = append(s.closedS, k)
		obs = "close"
	case "reclose":
		// Close on a handle that is already closed: must not disturb whoever holds the address now
		_ = s.closedS[len(s.closedS)-1].conn.Close()
		obs = "reclose"
	case "probe":
		ip := s.ipOf(f[1])
		port, _ := strconv.Atoi(f[2])
		if port == 0 && len(s.socks) > 0 {
			port = s.socks[len(s.socks)-1].port // the most recently bound (possibly ephemeral) port
		}
		payload := []byte(fmt.Sprintf("probe-%s-%d", ip, port))
		vnet.ZZPush(s.n, vnet.ZZUDPChunk("10.0.0.200:9", net.JoinHostPort(ip, strconv.Itoa(port)), payload))
		var want *bindSock
		for _, k := range s.socks {
			if k.port == port && (k.ip == "0.0.0.0" || k.ip == ip) {
				want = k
			}
		}
		obs = "probe:none"
		for _, k := range s.socks {
			_ = k.conn.SetReadDeadline(zzvsched.Now().Add(time.Millisecond))
			buf := make([]byte, 64)
			n, _, err := k.conn.ReadFrom(buf)
			got := err == nil && string(buf[:n]) == string(payload)
			if got && k != want {
				return obs, "C13 probe-misdelivered", fmt.Sprintf("a datagram to %s:%d was handed to the socket bound to %s:%d (open: %s)", ip, port, k.ip, k.port, s.open())
			}
			if !got && k == want {
				return obs, "C13 probe-lost", fmt.Sprintf("a datagram to %s:%d was not handed to the open socket %s:%d that covers it (read: n=%d err=%v)", ip, port, k.ip, k.port, n, err)
			}
			if got {
				obs = "probe:hit"
			}
		}
	}
	return obs, "", ""
}

func (s *bindSys) open() string {
	var o []string
	for _, k := range s.socks {
		o = append(o, fmt.Sprintf("%s:%d", k.ip, k.port))
	}
	return "[" + strings.Join(o, " ") + "]"
}

func (s *bindSys) Key() stateKey {
	var o []string
	for _, k := range s.socks {
		o = append(o, fmt.Sprintf("%s:%d", k.ip, k.port))
	}
	tbl := vnet.ZZBindTable(s.n)
	sort.Strings(tbl)
	// socket order matters for close(i): keep it in the key
	return strKey(fmt.Sprint(o, tbl, len(s.closedS) > 0))
}

func runC13(tier string, shard, shards int, rep *SeqReport) {
	var lastOp, curFam string
	done := false
	cfg := zzvsched.Config{MaxSteps: 1 << 62, Horizon: 100000 * time.Hour, NoTick: true,
		RandMenu: func(n int64) []int64 { return []int64{bindRand % n} }}
	ex := zzvsched.Run(cfg, func() {
		runC13Body(tier, shard, shards, rep, &lastOp, &curFam)
		done = true
	})
	if len(ex.Panics) > 0 {
		rep.violate("c13", "C13 panic", "panic: "+ex.Panics[0].Value+"\n"+ex.Panics[0].Stack, curFam+" ... "+lastOp)
	} else if !done {
		rep.violate("c13", "C13 operation-blocked", "an operation blocked: "+fmt.Sprint(ex.Parked), curFam+" ... "+lastOp)
	}
}

func runC13Body(tier string, shard, shards int, rep *SeqReport, lastOp, curFam *string) {
	thorough := tier == "thorough"
	unit := 0
	mine := func() bool { unit++; return (unit-1)%shards == shard }
	// (a) address assignment
	alpha := []string{"net", "net 1", "net 2", "net 3", "net 254", "net 5", "net out", "net 7 8", "router", "router 9"}
	depth := 5
	if thorough {
		depth = 6
	}
	for _, cidr := range []string{"10.0.0.0/24", "10.5.0.0/16", "10.0.0.128/25", "10.0.0.0/30"} {
		if !mine() {
			continue
		}
		cidr := cidr
		*curFam = "addresses " + cidr
		r := bfs("addresses "+cidr, func() seqSystem { return newAddrSys(cidr, alpha, lastOp) }, nil, depth, 200000, rep)
		rep.family("address-assignment-bfs", r.transitions)
	}
	// bulk: 253..256 automatic NICs, with and without a static one first
	for _, first := range []string{"", "net 1", "net 254", "net 100"} {
		if !mine() {
			continue
		}
		s := newAddrSys("10.0.0.0/24", nil, lastOp)
		var hist []string
		if first != "" {
			hist = append(hist, first)
			s.Apply(first)
		}
		errs := 0
		for i := 0; i < 257; i++ {
			obs, sig, msg := s.Apply("net")
			rep.Transitions++
			if sig != "" {
				rep.violate("addresses bulk", sig, msg, fmt.Sprintf("%v; net x%d", hist, i+1))
				errs = -1000
				break
			}
			if obs == "error" {
				errs++
			}
		}
		if errs == 0 {
			rep.violate("addresses bulk", "C13 exhaustion-not-reported", "257 automatic attachments on a /24 all succeeded", fmt.Sprintf("%v; net x257", hist))
		}
		rep.Evaluations++
		rep.States++
		rep.family("address-assignment-bulk", 257)
	}
	// (b) bind table
	var balpha []string
	for _, api := range []string{"listenudp", "listenpacket", "dialudp"} {
		for _, ip := range []string{"own1", "own2", "any", "lo", "foreign"} {
			for _, p := range []string{"5000", "5001", "0 0", "0 1", "0 999"} {
				if api != "listenudp" && (ip == "foreign" || p == "0 1" || p == "5001") {
					continue // the three entry points share one implementation: fewer combinations for the aliases
				}
				balpha = append(balpha, api+" "+ip+" "+p)
			}
		}
	}
	balpha = append(balpha, "listenudp lo2 5000", "listenudp lo2 0 0")
	balpha = append(balpha, "listenudp anynil 5000", "listenudp anynil 0 0", "dialudp anynil 5000")
	balpha = append(balpha, "dial own1", "dial lo", "close 0", "close 1", "close 2", "reclose",
		"probe own1 5000", "probe own2 5000", "probe lo 5000", "probe own1 5001", "probe own1 0")
	bdepth, cap := 4, int64(150000)
	if thorough {
		bdepth, cap = 5, 1500000
	} else {
		// quick: the aliases of the one bind implementation are exercised on one address only
		var lean []string
		for _, op := range balpha {
			f := strings.Fields(op)
			if (f[0] == "listenpacket" || f[0] == "dialudp") && !(f[1] == "own1" || f[1] == "any") {
				continue
			}
			if f[0] == "listenudp" && f[1] == "lo" && len(f) > 3 {
				continue
			}
			lean = append(lean, op)
		}
		balpha = lean
	}
	for _, ips := range [][]string{{"10.0.0.1"}, {"10.0.0.1", "10.0.0.2"}} {
		if !mine() {
			continue
		}
		ips := ips
		*curFam = fmt.Sprint("bind ", ips)
		r := bfs(fmt.Sprint("bind ", ips), func() seqSystem { return newBindSys(ips, balpha, lastOp) }, nil, bdepth, cap, rep)
		rep.family("bind-table-bfs", r.transitions)
	}
	// a stale handle is closed again after its address has been taken over by another socket
	if mine() {
		var n int64
		for _, ip1 := range []string{"own1", "any", "own2", "lo"} {
			for _, ip2 := range []string{"own1", "any", "own2", "lo"} {
				for _, port := range []string{"5000", "0 0"} {
					s := newBindSys([]string{"10.0.0.1", "10.0.0.2"}, nil, lastOp)
					p2 := port
					// traffic reaches the first socket before it is closed (anything remembered per destination must be forgotten with it)
					ops := []string{"listenudp " + ip1 + " " + port, "probe own1 0", "probe own2 0", "probe lo 0", "close 0", "listenudp " + ip2 + " " + p2, "reclose",
						"probe own1 0", "probe own2 0", "probe lo 0", "listenudp " + ip2 + " " + p2, "listenudp own1 5000", "listenudp any 5000", "probe own1 0"}
					var hist []string
					for _, op := range ops {
						f := strings.Fields(op)
						if f[0] == "close" && len(s.socks) == 0 || f[0] == "reclose" && len(s.closedS) == 0 {
							continue
						}
						hist = append(hist, op)
						_, sig, msg := s.Apply(op)
						rep.Transitions++
						if sig != "" {
							rep.violate("bind stale-close", sig, msg, strings.Join(hist, "; "))
							break
						}
					}
					n++
					rep.Evaluations++
					rep.States++
				}
			}
		}
		rep.family("bind-stale-close", n)
	}
	// bulk: 999 / 1000 ports of 5000-5999 bound, then port 0
	for _, k := range []int{998, 999, 1000} {
		for _, wild := range []bool{true, false} {
			if !mine() {
				continue
			}
			s := newBindSys([]string{"10.0.0.1", "10.0.0.2"}, nil, lastOp)
			ip := "own1"
			if wild {
				ip = "any"
			}
			ok := true
			for p := 0; p < k && ok; p++ {
				_, sig, msg := s.Apply(fmt.Sprintf("listenudp %s %d", ip, 5000+p))
				if sig != "" {
					rep.violate("bind bulk", sig, msg, fmt.Sprintf("listenudp %s 5000..%d", ip, 5000+p))
					ok = false
				}
			}
			for _, rnd := range []string{"0", "500", "999"} {
				for _, ip2 := range []string{"own1", "any", "own2"} {
					op := fmt.Sprintf("listenudp %s 0 %s", ip2, rnd)
					_, sig, msg := s.Apply(op)
					rep.Transitions++
					if sig != "" {
						rep.violate("bind bulk", sig, msg, fmt.Sprintf("listenudp %s 5000..%d; ...; %s", ip, 5000+k-1, op))
					}
				}
			}
			rep.Evaluations++
			rep.States++
			rep.family("bind-table-bulk", int64(k))
		}
	}
}

func init() {
	register(&Check{ID: "C13", Seq: runC13,
		Rule: "router: BFS (depth 5/6) over attachment orders {automatic host, static .1/.2/.3/.5/.254, outside the subnet, two statics, child router automatic/static}, each static used at most once, for subnets /24, /16, /25, /30, plus 257 automatic attachments after nothing / a static .1 / .100 / .254; host: BFS (depth 4/5) over {ListenUDP, ListenPacket, DialUDP, Dial} x {own address 1, own address 2, wildcard (0.0.0.0 and a nil IP with the port kept; IPv4 addresses alternately in 16-byte and 4-byte form), loopback, 127.0.0.2, foreign} x {port 5000, 5001, 0 with PRNG offset 0/1/999}, Close(i), probe datagram to (ip,port), on hosts with one and two addresses, plus 998/999/1000 bound ports followed by port-0 binds; compared with a set model of assigned addresses / open sockets",
		Assumptions: []string{"a static address equal to one already in use is supplied at most never (left unconstrained by the property)",
			"probe datagrams are injected at the host's NIC (routing is C01's subject)"}})
}
