package main

import (
	"fmt"
	"net"
	"os"
	"regexp"
	"sort"
	"strings"
	"time"

	"github.com/pion/logging"
	"github.com/pion/transport/v3/deadline"
	"github.com/pion/transport/v3/dpipe"
	"github.com/pion/transport/v3/packetio"
	"github.com/pion/transport/v3/udp"
	"github.com/pion/transport/v3/vnet"
	"github.com/pion/transport/v3/zzvsched"
	"github.com/pion/transport/v3/zzvsched/fakenet"
	"verifharness/explore"
)

// C19 — concurrent use of the thread-safe APIs is free of data races.
// The scheduler runs inside a -race build with a hand-off the detector cannot
// see, so the detector judges every schedule the DFS visits.

type c19obj struct {
	horizon time.Duration // 0 = 2 s of virtual time
	name    string
	// setup builds the object (sequentially, in the main thread) and returns its
	// concurrent-safe operations.
	setup func() []c19op
}

type c19op struct {
	name string
	f    func()
}

var raceLogOff int64

func raceLogPath() string {
	p := os.Getenv("VERIF_RACELOG")
	if p == "" {
		return ""
	}
	return fmt.Sprintf("%s.%d", p, os.Getpid())
}

var reFrame = regexp.MustCompile(`(?m)^  ([^\s].*)\(\)$`)

// newRaces returns the signatures of race reports written since the last call
// whose two accesses are both in repository code.
func newRaces() []string {
	p := raceLogPath()
	if p == "" {
		return nil
	}
	f, err := os.Open(p)
	if err != nil {
		return nil
	}
	defer f.Close()
	st, _ := f.Stat()
	if st.Size() <= raceLogOff {
		return nil
	}
	buf := make([]byte, st.Size()-raceLogOff)
	f.ReadAt(buf, raceLogOff)
	raceLogOff = st.Size()
	var out []string
	for _, blk := range strings.Split(string(buf), "==================") {
		if !strings.Contains(blk, "DATA RACE") {
			continue
		}
		secs := strings.Split(blk, "\n\n")
		var acc []string
		for _, s := range secs {
			t := strings.TrimSpace(s)
			if strings.HasPrefix(t, "WARNING: DATA RACE") {
				t = strings.TrimSpace(strings.TrimPrefix(t, "WARNING: DATA RACE"))
			}
			if !(strings.HasPrefix(t, "Write at") || strings.HasPrefix(t, "Read at") || strings.HasPrefix(t, "Previous write at") || strings.HasPrefix(t, "Previous read at") ||
				strings.HasPrefix(t, "Atomic") || strings.HasPrefix(t, "Previous atomic")) {
				continue
			}
			fn := ""
			if strings.Contains(s, "zzvsched.wgSemaWrite") {
				// the shim's model of WaitGroup misuse ("Add from zero concurrent with Wait"); the frame of the
				// waiting go-statement closure is not always on the stack
				fn = "sync.(*WaitGroup).Wait [first waiter]"
			}
			for _, m := range reFrame.FindAllStringSubmatch(s, -1) {
				name := m[1]
				if strings.HasPrefix(name, "github.com/pion/transport/v3/") && !strings.Contains(name, "/zzvsched") {
					fn = strings.TrimPrefix(name, "github.com/pion/transport/v3/")
					break
				}
				if strings.HasPrefix(name, "main.") {
					break // the access belongs to the harness
				}
			}
			acc = append(acc, fn)
		}
		if os.Getenv("VERIF_C19_DUMPLOG") != "" {
			fmt.Fprintf(os.Stderr, "RACE BLOCK (attributed to %q):\n%s\n", acc, blk)
		}
		if len(acc) >= 2 && acc[0] != "" && acc[1] != "" {
			pair := []string{acc[0], acc[1]}
			sort.Strings(pair)
			out = append(out, pair[0]+" <-> "+pair[1])
		}
	}
	return out
}

func c19scenario(obj c19obj, picks []int, bound int) *explore.Scenario {
	// the name needs the op names: build once outside a run is impossible (setup needs the scheduler),
	// so names are index based and resolved in the first execution
	sc := &explore.Scenario{Name: fmt.Sprintf("%s ops%v", obj.name, picks), Bound: bound, NoFP: false}
	sc.Cfg.Horizon = 2 * time.Second
	if obj.horizon != 0 {
		sc.Cfg.Horizon = obj.horizon
	}
	sc.Cfg.RandMenu = func(n int64) []int64 { return []int64{0} }
	sc.Make = func() (func(), func(*zzvsched.Exec) (string, *explore.Violation)) {
		var names []string
		body := func() {
			ops := obj.setup()
			for _, k := range picks {
				op := ops[k%len(ops)]
				names = append(names, op.name)
				zzvsched.GoNamed(op.name, op.f)
			}
		}
		check := func(ex *zzvsched.Exec) (string, *explore.Violation) {
			out := strings.Join(names, "||")
			if rs := newRaces(); len(rs) > 0 {
				return out, &explore.Violation{Sig: "C19 race " + rs[0], Msg: fmt.Sprintf("%s, threads %v: data race between %s (full report in the race log)", obj.name, names, rs[0])}
			}
			// these programs only combine operations that are safe to use concurrently and that cannot fail
			// sequentially: the library crashing in one of them is the run-time face of two conflicting,
			// unordered operations (double close of a channel, the runtime's concurrent-map-access abort)
			for _, p := range ex.Panics {
				first := p.Value
				if i := strings.IndexByte(first, '\n'); i > 0 {
					first = first[:i]
				}
				return out, &explore.Violation{Sig: "C19 crash " + first, Msg: fmt.Sprintf("%s, threads %v: the library panicked under concurrent use (%s): %s\n%s", obj.name, names, p.Thread, p.Value, p.Stack)}
			}
			return out, nil
		}
		return body, check
	}
	return sc
}

func c19objects() []c19obj {
	lf := logging.NewDefaultLoggerFactory
	return []c19obj{
		{name: "packetio.Buffer", setup: func() []c19op {
			b := packetio.NewBuffer()
			_, _ = b.Write([]byte("seed"))
			_, _ = b.Write([]byte("seed2")) // a Read leaves something behind
			return []c19op{
				{"Write", func() { _, _ = b.Write([]byte("abc")) }},
				{"Read", func() { _, _ = b.Read(make([]byte, 8)) }},
				{"Close", func() { _ = b.Close() }},
				{"Count+Size", func() { _ = b.Count(); _ = b.Size() }},
				{"SetLimits", func() { b.SetLimitCount(5); b.SetLimitSize(4000) }},
				{"SetReadDeadline", func() { _ = b.SetReadDeadline(zzvsched.Now().Add(time.Millisecond)) }},
			}
		}},
		{name: "packetio.Buffer, full size-limited ring", setup: func() []c19op {
			// a ring of 41 bytes that is full: a write re-uses the bytes a read has just released
			b := packetio.NewBuffer()
			b.SetLimitSize(40)
			_, _ = b.Write(make([]byte, 16))
			_, _ = b.Write(make([]byte, 16))
			return []c19op{
				{"Read", func() { _, _ = b.Read(make([]byte, 32)) }},
				{"Write", func() { _, _ = b.Write(make([]byte, 16)) }},
				{"Read+Write", func() { _, _ = b.Read(make([]byte, 32)); _, _ = b.Write(make([]byte, 10)) }},
				{"Size", func() { _ = b.Size() }},
			}
		}},
		{name: "deadline.Deadline", setup: func() []c19op {
			d := deadline.New()
			d.Set(zzvsched.Now().Add(time.Millisecond))
			return []c19op{
				{"Set(future)", func() { d.Set(zzvsched.Now().Add(2 * time.Millisecond)) }},
				{"Set(zero)", func() { d.Set(time.Time{}) }},
				{"Done+Err", func() { _ = d.Done(); _ = d.Err() }},
				{"Deadline", func() { _, _ = d.Deadline() }},
				{"wait-expiry", func() { zzvsched.Sleep(3 * time.Millisecond); _ = d.Err() }},
				{"re-arm-at-expiry", func() { zzvsched.Sleep(time.Millisecond); d.Set(zzvsched.Now().Add(5 * time.Millisecond)) }},
			}
		}},
		{name: "dpipe", setup: func() []c19op {
			a, b := dpipe.Pipe()
			_, _ = b.Write([]byte("seed"))
			return []c19op{
				{"a.Read", func() { _, _ = a.Read(make([]byte, 8)) }},
				{"a.Write", func() { _, _ = a.Write([]byte("x")) }},
				{"b.Write", func() { _, _ = b.Write([]byte("y")) }},
				{"a.SetDeadline", func() { _ = a.SetDeadline(zzvsched.Now().Add(time.Millisecond)) }},
				{"a.Close", func() { _ = a.Close() }},
				{"b.Read", func() { _ = b.SetReadDeadline(zzvsched.Now().Add(time.Millisecond)); _, _ = b.Read(make([]byte, 8)) }},
			}
		}},
		{name: "vnet socket+router", setup: func() []c19op {
			r, _ := vnet.NewRouter(&vnet.RouterConfig{CIDR: "10.0.0.0/24", LoggerFactory: lf()})
			n1, _ := vnet.NewNet(&vnet.NetConfig{StaticIPs: []string{"10.0.0.1"}})
			n2, _ := vnet.NewNet(&vnet.NetConfig{StaticIPs: []string{"10.0.0.2"}})
			_ = r.AddNet(n1)
			_ = r.AddNet(n2)
			_ = r.Start()
			c1, _ := n1.ListenUDP("udp", &net.UDPAddr{IP: net.ParseIP("10.0.0.1"), Port: 5000})
			c2, _ := n2.ListenUDP("udp", &net.UDPAddr{IP: net.ParseIP("10.0.0.2"), Port: 5000})
			to1 := &net.UDPAddr{IP: net.ParseIP("10.0.0.1"), Port: 5000}
			to2 := &net.UDPAddr{IP: net.ParseIP("10.0.0.2"), Port: 5000}
			return []c19op{
				{"c1.WriteTo", func() { _, _ = c1.WriteTo([]byte("ping"), to2) }},
				{"c2.WriteTo", func() { _, _ = c2.WriteTo([]byte("pong"), to1) }},
				{"c1.ReadFrom", func() {
					_ = c1.SetReadDeadline(zzvsched.Now().Add(time.Millisecond))
					_, _, _ = c1.ReadFrom(make([]byte, 8))
				}},
				{"c1.Close", func() { _ = c1.Close() }},
				{"c1.SetReadDeadline", func() { _ = c1.SetReadDeadline(zzvsched.Now().Add(time.Millisecond)) }},
				{"router.AddChunkFilter", func() { r.AddChunkFilter(func(vnet.Chunk) bool { return true }) }},
				{"router.Stop+Start", func() { _ = r.Stop(); _ = r.Start() }},
				{"n1.ListenUDP", func() {
					if c, err := n1.ListenUDP("udp", &net.UDPAddr{IP: net.ParseIP("10.0.0.1"), Port: 0}); err == nil {
						_ = c.Close()
					}
				}},
				{"router.AddNet", func() {
					n3, _ := vnet.NewNet(&vnet.NetConfig{StaticIPs: []string{"10.0.0.3"}})
					_ = r.AddNet(n3)
				}},
			}
		}},
		{name: "vnet socket bound to the wildcard address", setup: func() []c19op {
			// (a socket bound to 0.0.0.0 picks its source address per datagram; dialled sockets have a remote)
			r, _ := vnet.NewRouter(&vnet.RouterConfig{CIDR: "10.0.0.0/24", LoggerFactory: lf()})
			n1, _ := vnet.NewNet(&vnet.NetConfig{StaticIPs: []string{"10.0.0.1"}})
			n2, _ := vnet.NewNet(&vnet.NetConfig{StaticIPs: []string{"10.0.0.2"}})
			_ = r.AddNet(n1)
			_ = r.AddNet(n2)
			_ = r.Start()
			cw, _ := n1.ListenUDP("udp", &net.UDPAddr{IP: net.IPv4zero, Port: 5000})
			_, _ = n2.ListenUDP("udp", &net.UDPAddr{IP: net.ParseIP("10.0.0.2"), Port: 5000})
			to2 := &net.UDPAddr{IP: net.ParseIP("10.0.0.2"), Port: 5000}
			lo := &net.UDPAddr{IP: net.ParseIP("127.0.0.1"), Port: 5000}
			return []c19op{
				{"WriteTo-a", func() { _, _ = cw.WriteTo([]byte("a"), to2) }},
				{"WriteTo-b", func() { _, _ = cw.WriteTo([]byte("b"), to2) }},
				{"WriteTo-loopback", func() { _, _ = cw.WriteTo([]byte("l"), lo) }},
				{"LocalAddr+ReadFrom", func() {
					_ = cw.LocalAddr()
					_ = cw.SetReadDeadline(zzvsched.Now().Add(time.Millisecond))
					_, _, _ = cw.ReadFrom(make([]byte, 8))
				}},
			}
		}},
		{name: "token bucket filter", setup: func() []c19op {
			rec := vnet.ZZNewRecNIC()
			f, _ := vnet.NewTokenBucketFilter(rec, vnet.TBFRate(vnet.MBit), vnet.TBFMaxBurst(2000))
			return []c19op{
				{"traffic", func() {
					vnet.ZZPush(f, vnet.ZZUDPChunk("10.0.0.1:1", "10.0.0.2:2", make([]byte, 500)))
					vnet.ZZPush(f, vnet.ZZUDPChunk("10.0.0.1:1", "10.0.0.2:2", make([]byte, 500)))
				}},
				{"Set(rate)", func() { f.Set(vnet.TBFRate(2 * vnet.MBit)) }},
				{"Set(burst)", func() { f.Set(vnet.TBFMaxBurst(4000)) }},
				// setters in both directions: lowering a limit may touch state that raising it does not
				{"Set(burst lower)", func() { f.Set(vnet.TBFMaxBurst(600)) }},
				{"Set(rate lower)", func() { f.Set(vnet.TBFRate(100 * vnet.KBit)) }},
				{"traffic2", func() { vnet.ZZPush(f, vnet.ZZUDPChunk("10.0.0.1:1", "10.0.0.2:3", make([]byte, 100))) }},
				// shutting the filter down while it works (Close is not idempotent: it is never paired with itself)
				{"Close", func() { _ = f.Close() }},
			}
		}},
		{name: "delay+loss filter", setup: func() []c19op {
			rec := vnet.ZZNewRecNIC()
			df, _ := vnet.NewDelayFilter(rec, time.Millisecond)
			lfil, _ := vnet.NewLossFilter(df, 0)
			ctx, _ := zzvsched.WithCancel()
			zzvsched.GoNamed("run", func() { df.Run(ctx) })
			return []c19op{
				{"traffic-a", func() { vnet.ZZPush(lfil, vnet.ZZUDPChunk("10.0.0.1:1", "10.0.0.2:2", []byte("a"))) }},
				{"traffic-b", func() { vnet.ZZPush(lfil, vnet.ZZUDPChunk("10.0.0.1:1", "10.0.0.2:2", []byte("b"))) }},
				{"traffic-c", func() {
					zzvsched.Sleep(time.Millisecond)
					vnet.ZZPush(df, vnet.ZZUDPChunk("10.0.0.1:1", "10.0.0.2:2", []byte("c")))
				}},
			}
		}},
		{name: "udp listener", setup: func() []c19op {
			fakenet.Reset()
			l, _ := udp.Listen("udp", &net.UDPAddr{IP: net.IPv4(127, 0, 0, 1), Port: 4000})
			sock := fakenet.Sockets[0]
			ra := &net.UDPAddr{IP: net.IPv4(10, 0, 0, 1), Port: 1}
			rb := &net.UDPAddr{IP: net.IPv4(10, 0, 0, 2), Port: 1}
			sock.Inject(ra, []byte("a0"))
			c, _ := l.Accept()
			return []c19op{
				{"Accept", func() {
					if cn, err := l.Accept(); err == nil {
						_, _ = cn.Write([]byte("hi"))
						_ = cn.Close()
					}
				}},
				{"listener.Close", func() { _ = l.Close() }},
				{"conn.Read", func() { _, _ = c.Read(make([]byte, 8)) }},
				{"conn.Write", func() { _, _ = c.Write([]byte("w")) }},
				{"conn.Close", func() { _ = c.Close() }},
				{"datagram-known", func() { sock.Inject(ra, []byte("a1")) }},
				{"datagram-new", func() { sock.Inject(rb, []byte("b0")) }},
				{"conn.SetDeadline", func() { _ = c.SetDeadline(zzvsched.Now().Add(time.Millisecond)) }},
			}
		}},
		{name: "udp listener without connections", setup: func() []c19op {
			// nobody but the listener itself holds the socket: its Close races with the very first datagram
			fakenet.Reset()
			l, _ := udp.Listen("udp", &net.UDPAddr{IP: net.IPv4(127, 0, 0, 1), Port: 4000})
			sock := fakenet.Sockets[0]
			ra := &net.UDPAddr{IP: net.IPv4(10, 0, 0, 1), Port: 1}
			rb := &net.UDPAddr{IP: net.IPv4(10, 0, 0, 2), Port: 1}
			return []c19op{
				{"listener.Close", func() { _ = l.Close() }},
				{"datagram-new", func() { sock.Inject(ra, []byte("a0")) }},
				{"Accept", func() {
					if cn, err := l.Accept(); err == nil {
						_, _ = cn.Write([]byte("hi"))
						_ = cn.Close()
					}
				}},
				{"datagram-new-2", func() { sock.Inject(rb, []byte("b0")) }},
			}
		}},
		{horizon: 5 * time.Millisecond, name: "udp listener with batch writes", setup: func() []c19op {
			fakenet.Reset()
			lc := udp.ListenConfig{Batch: udp.BatchIOConfig{Enable: true, ReadBatchSize: 2, WriteBatchSize: 2, WriteBatchInterval: 2 * time.Millisecond}}
			l, _ := lc.Listen("udp", &net.UDPAddr{IP: net.IPv4(127, 0, 0, 1), Port: 4000})
			sock := fakenet.Sockets[0]
			ra := &net.UDPAddr{IP: net.IPv4(10, 0, 0, 1), Port: 1}
			sock.Inject(ra, []byte("a0"))
			c, _ := l.Accept()
			return []c19op{
				{"conn.Write-1", func() { _, _ = c.Write([]byte("w1")) }},
				{"conn.Write-2", func() { _, _ = c.Write(make([]byte, 1600)) }},
				{"close-all", func() { _ = c.Close(); _ = l.Close() }},
				{"datagrams", func() { sock.Inject(ra, []byte("a1")); sock.Inject(ra, []byte("a2")) }},
				{"wait-flush", func() { zzvsched.Sleep(3 * time.Millisecond) }},
			}
		}},
		{name: "NAT router under traffic", setup: func() []c19op {
			root, _ := vnet.NewRouter(&vnet.RouterConfig{CIDR: "1.2.3.0/24", LoggerFactory: lf()})
			lan, _ := vnet.NewRouter(&vnet.RouterConfig{CIDR: "10.0.0.0/24", LoggerFactory: lf()})
			_ = root.AddRouter(lan)
			w1, _ := vnet.NewNet(&vnet.NetConfig{StaticIPs: []string{"1.2.3.10"}})
			w2, _ := vnet.NewNet(&vnet.NetConfig{StaticIPs: []string{"1.2.3.20"}})
			a1, _ := vnet.NewNet(&vnet.NetConfig{StaticIPs: []string{"10.0.0.1"}})
			_ = root.AddNet(w1)
			_ = root.AddNet(w2)
			_ = lan.AddNet(a1)
			_ = root.Start()
			ca, _ := a1.ListenUDP("udp", &net.UDPAddr{IP: net.ParseIP("10.0.0.1"), Port: 5000})
			c1, _ := w1.ListenUDP("udp", &net.UDPAddr{IP: net.ParseIP("1.2.3.10"), Port: 7000})
			to1 := &net.UDPAddr{IP: net.ParseIP("1.2.3.10"), Port: 7000}
			to2 := &net.UDPAddr{IP: net.ParseIP("1.2.3.20"), Port: 7000}
			// prime the mapping and learn its external address
			_, _ = ca.WriteTo([]byte("hello"), to1)
			buf := make([]byte, 16)
			_, ext, _ := c1.ReadFrom(buf)
			return []c19op{
				{"lan->new-remote", func() { _, _ = ca.WriteTo([]byte("x"), to2) }},
				{"wan->mapping", func() {
					if ext != nil {
						_, _ = c1.WriteTo([]byte("y"), ext)
					}
				}},
				{"lan->known-remote", func() { _, _ = ca.WriteTo([]byte("z"), to1) }},
				{"lan.read", func() {
					_ = ca.SetReadDeadline(zzvsched.Now().Add(time.Millisecond))
					_, _, _ = ca.ReadFrom(make([]byte, 8))
				}},
			}
		}},
		{name: "independent networks", setup: func() []c19op {
			build := func(cidr, ip string) func() {
				return func() {
					r, err := vnet.NewRouter(&vnet.RouterConfig{CIDR: cidr, LoggerFactory: lf()})
					if err != nil {
						return
					}
					n, _ := vnet.NewNet(&vnet.NetConfig{StaticIPs: []string{ip}})
					_ = r.AddNet(n)
					_ = r.Start()
					if c, err := n.ListenUDP("udp", &net.UDPAddr{IP: net.ParseIP(ip), Port: 5000}); err == nil {
						_, _ = c.WriteTo([]byte("x"), &net.UDPAddr{IP: net.ParseIP(ip), Port: 5000})
					}
					_ = r.Stop()
				}
			}
			return []c19op{{"build-net-A", build("10.1.0.0/24", "10.1.0.1")}, {"build-net-B", build("10.2.0.0/24", "10.2.0.1")}}
		}},
	}
}

func c19counts() []int { return []int{6, 4, 6, 6, 9, 4, 7, 3, 8, 4, 5, 3, 2} }

func init() {
	register(&Check{ID: "C19", ShardByScenario: true,
		Scenarios: func(tier string) []*explore.Scenario {
			var out []*explore.Scenario
			bound := 1
			if tier == "thorough" {
				bound = 2
			}
			objs := c19objects()
			cnt := c19counts()
			for oi, o := range objs {
				n := cnt[oi]
				if tier == "quick" && o.horizon != 0 {
					n = 4 // the never-ending batch ticker makes executions long: fewer operations per pair in quick
				}
				for i := 0; i < n; i++ {
					for j := i; j < n; j++ {
						if i == j && tier == "quick" && (oi == 4 || oi == 8 || oi == 10) {
							continue // same operation twice on the three largest families: thorough only
						}
						if oi == 6 && i == 6 && j == 6 {
							continue // TokenBucketFilter.Close twice is a caller error (close of a closed channel)
						}
						out = append(out, c19scenario(o, []int{i, j}, bound))
					}
				}
				if tier == "thorough" && n >= 3 {
					for i := 0; i+2 < n; i++ {
						out = append(out, c19scenario(o, []int{i, i + 1, i + 2}, 1))
					}
				}
			}
			return out
		},
		Rule: "programs: for each object (packet buffer, packet buffer with a full size-limited ring, deadline, dpipe, vnet socket + running router, vnet socket bound to the wildcard address, NAT router under traffic, token bucket filter, delay+loss filter, UDP listener + connection, UDP listener without connections, UDP listener with batch writes, two independent networks) every unordered pair (thorough: also each operation with itself and selected triples) of its concurrent-safe operations runs in separate threads after a sequential set-up; every schedule within the deviation bound runs under the Go race detector with a scheduler hand-off invisible to it; a violation is a detector report whose two accesses are both in repository code, or a panic of the library in such a program (double close, runtime map-access abort)",
		Assumptions: []string{"the race detector keeps a bounded shadow history per memory word; the harnesses are short, so eviction is unlikely but possible",
			"operations documented as construction-only (TBFQueueSizeInBytes, Bridge.SetLossChance) are not in the alphabet",
			"happens-before edges of mutex/rwmutex/waitgroup/once/channel/timer/go are re-created for the detector by the shim (runtime.RaceAcquire/Release); the real channel, atomic and go operations are executed by the thread itself"}})
}
