package main

import (
	"fmt"
	"net"
	"sort"
	"strings"
	"time"

	"github.com/pion/transport/v3/udp"
	"github.com/pion/transport/v3/zzvsched"
	"github.com/pion/transport/v3/zzvsched/fakenet"
	"verifharness/explore"
)

// C11 — the UDP listener hands each datagram to the one connection of its remote.
// C12 — the listener's socket lives exactly as long as the listener or an accepted conn.

// The remote addresses are related on purpose: a1/a2 share the IP, and a1/b1 have texts that collide once a
// separator is dropped ("10.0.0.1"+"15" == "10.0.0.11"+"5"), so a table keyed by anything coarser than the
// full address merges two remotes.
var udpRemotes = map[string]*net.UDPAddr{
	"a1": {IP: net.IPv4(10, 0, 0, 1), Port: 15},
	"a2": {IP: net.IPv4(10, 0, 0, 1), Port: 16},
	"b1": {IP: net.IPv4(10, 0, 0, 11), Port: 5},
}

type c11cfg struct {
	remotes []string
	per     int
	backlog int
	filter  bool // reject payloads whose tag is "-0" (the first datagram of every remote)
	batch   int
	closer  bool
	closer2 bool // a second thread closes the same connection at the same time and sends again afterwards
	bound   int
	partial bool
	strict  bool // deviation = any non-default scheduling decision (many threads)
	readers int  // reader threads per accepted connection (0 = 1); with more than one the order of the log is not judged
	reads   int  // Reads per reader thread (0 = until the connection fails): a reader that stops cannot cover for one that was never woken
}

func (c c11cfg) name() string {
	s := fmt.Sprintf("listener remotes=%v x%d backlog=%d", c.remotes, c.per, c.backlog)
	if c.filter {
		s += " filter"
	}
	if c.batch > 0 {
		s += fmt.Sprintf(" batch=%d", c.batch)
	}
	if c.closer {
		s += " +close-and-return"
	}
	if c.closer2 {
		s += " +second-concurrent-Close"
	}
	if c.readers > 1 {
		s += fmt.Sprintf(" readers-per-conn=%d", c.readers)
		if c.reads > 0 {
			s += fmt.Sprintf(" x%d-reads-each", c.reads)
		}
	}
	if c.strict {
		s += " [strict deviations]"
	}
	return s
}

type connLog struct {
	remote string
	got    []string
	gen    int
}

func c11scenario(c c11cfg) *explore.Scenario {
	sc := &explore.Scenario{Name: c.name(), Bound: c.bound}
	sc.Cfg.Horizon = 10 * time.Second
	if c.batch > 0 {
		// the batch writer's ticker never stops while the listener is open: a short horizon
		// ends the execution (everything else happens at virtual time ~0)
		sc.Cfg.Horizon = 120 * time.Millisecond
	}
	sc.Cfg.Strict = c.strict
	sc.Make = func() (func(), func(*zzvsched.Exec) (string, *explore.Violation)) {
		var logs []*connLog
		var viol *explore.Violation
		injected := map[string][]string{}
		accepts := 0
		openByRemote := map[string]int{}
		closedOnce := false
		lateInjected := false
		lateBInjected := false
		closeBegun := false
		firstGen := map[string]int{} // generation (index in logs) of the first connection of each remote
		var probed []string
		fail := func(sig, format string, a ...any) {
			if viol == nil {
				viol = &explore.Violation{Sig: "C11 " + sig, Msg: c.name() + ": " + fmt.Sprintf(format, a...)}
			}
		}
		body := func() {
			fakenet.Reset()
			lc := udp.ListenConfig{Backlog: c.backlog}
			if c.filter {
				lc.AcceptFilter = func(p []byte) bool { return !strings.HasSuffix(string(p), "-0") }
			}
			if c.batch > 0 {
				lc.Batch = udp.BatchIOConfig{Enable: true, ReadBatchSize: c.batch, WriteBatchSize: 2, WriteBatchInterval: 50 * time.Millisecond}
			}
			l, err := lc.Listen("udp", &net.UDPAddr{IP: net.IPv4(127, 0, 0, 1), Port: 4000})
			if err != nil {
				panic(err)
			}
			sock := fakenet.Sockets[0]
			sock.BatchPartial = c.partial
			for _, r := range c.remotes {
				r := r
				zzvsched.GoNamed("inject-"+r, func() {
					for k := 0; k < c.per; k++ {
						p := fmt.Sprintf("%s-%d", r, k)
						sock.Inject(udpRemotes[r], []byte(p))
						injected[r] = append(injected[r], p) // same atomic step as the injection: arrival order
					}
				})
			}
			zzvsched.GoNamed("accepter", func() {
				for {
					cn, err := l.Accept()
					if err != nil {
						return
					}
					accepts++
					ra := cn.RemoteAddr().String()
					name := ""
					for k, v := range udpRemotes {
						if v.String() == ra {
							name = k
						}
					}
					openByRemote[name]++
					if openByRemote[name] > 1 {
						fail("two-open-conns", "a second connection for remote %s was accepted while the first is still open", name)
					}
					lg := &connLog{remote: name, gen: len(logs)}
					if _, ok := firstGen[name]; !ok {
						firstGen[name] = lg.gen
					}
					logs = append(logs, lg)
					nr := c.readers
					if nr < 1 {
						nr = 1
					}
					for ri := 0; ri < nr; ri++ {
						zzvsched.GoNamed(fmt.Sprintf("reader%d-%s", ri, name), func() {
							for k := 0; c.reads == 0 || k < c.reads; k++ {
								buf := make([]byte, 64)
								n, err := cn.Read(buf)
								if err != nil {
									return
								}
								lg.got = append(lg.got, string(buf[:n]))
							}
						})
					}
					if c.closer2 && !closedOnce && name == c.remotes[0] {
						zzvsched.GoNamed("closer2", func() {
							if !closeBegun {
								closeBegun = true
								openByRemote[name]-- // from the moment the first Close begins the connection no longer counts as open
							}
							_ = cn.Close()
							// this Close has returned: a new datagram from that remote must create a fresh connection
							pb := name + "-lateB"
							sock.Inject(udpRemotes[name], []byte(pb))
							injected[name] = append(injected[name], pb)
							lateBInjected = true
						})
					}
					if c.closer && !closedOnce && name == c.remotes[0] {
						closedOnce = true
						zzvsched.GoNamed("closer", func() {
							if !closeBegun {
								closeBegun = true
								openByRemote[name]-- // from the moment Close begins the connection no longer counts as open
							}
							_ = cn.Close()
							// afterwards a new datagram from that remote must create a fresh connection
							p := name + "-late"
							sock.Inject(udpRemotes[name], []byte(p))
							injected[name] = append(injected[name], p)
							lateInjected = true
							// the stale handle is closed once more (Close is idempotent) after the remote's
							// fresh connection exists; a further datagram still belongs to that connection
							zzvsched.WaitIdle()
							_ = cn.Close()
							p2 := name + "-late2"
							sock.Inject(udpRemotes[name], []byte(p2))
							injected[name] = append(injected[name], p2)
						})
					}
				}
			})
		}
		bodyInner := body
		body = func() {
			bodyInner()
			// final phase: once everything has settled the backlog is empty, so a datagram from
			// a remote that has no connection (refused earlier for lack of room) must create one
			zzvsched.SleepIdle(time.Millisecond)
			sock := fakenet.Sockets[0]
			for _, r := range c.remotes {
				has := false
				for _, lg := range logs {
					has = has || lg.remote == r
				}
				if !has {
					probed = append(probed, r)
					sock.Inject(udpRemotes[r], []byte(r+"-probe"))
					injected[r] = append(injected[r], r+"-probe")
				}
			}
			zzvsched.WaitIdle()
		}
		check := func(ex *zzvsched.Exec) (string, *explore.Violation) {
			var parts []string
			for _, lg := range logs {
				parts = append(parts, fmt.Sprintf("%s:%v", lg.remote, lg.got))
			}
			sort.Strings(parts)
			out := strings.Join(parts, " ")
			if len(ex.Panics) > 0 {
				return out, &explore.Violation{Sig: "C11 panic", Msg: c.name() + ": panic: " + ex.Panics[0].Value + "\n" + ex.Panics[0].Stack}
			}
			if viol != nil {
				return out, viol
			}
			if ex.HorizonHit && c.batch == 0 {
				return out + " HORIZON", nil
			}
			seen := map[string]bool{}
			perRemote := map[string][]string{}
			for _, lg := range logs {
				if lg.remote == "" {
					return out, &explore.Violation{Sig: "C11 unknown-remote", Msg: c.name() + ": a connection with an unknown remote address was accepted"}
				}
				for _, p := range lg.got {
					if !strings.HasPrefix(p, lg.remote+"-") {
						return out, &explore.Violation{Sig: "C11 misdelivered", Msg: c.name() + fmt.Sprintf(": the connection of remote %s read %q, a datagram of another remote (or a corrupted one); all reads: %s", lg.remote, p, out)}
					}
					if seen[p] {
						return out, &explore.Violation{Sig: "C11 duplicate", Msg: c.name() + fmt.Sprintf(": datagram %q was delivered twice; all reads: %s", p, out)}
					}
					seen[p] = true
					perRemote[lg.remote] = append(perRemote[lg.remote], p)
				}
				if len(lg.got) == 0 && !(c.closer && lg.remote == c.remotes[0]) {
					return out, &explore.Violation{Sig: "C11 first-datagram-missing", Msg: c.name() + fmt.Sprintf(": a connection for remote %s was accepted but the datagram that created it cannot be read from it; all reads: %s", lg.remote, out)}
				}
			}
			for r, got := range perRemote {
				// in arrival order
				idx := -1
				for _, p := range got {
					k := -1
					for i, q := range injected[r] {
						if q == p {
							k = i
						}
					}
					if k < 0 {
						return out, &explore.Violation{Sig: "C11 invented", Msg: c.name() + fmt.Sprintf(": %q was never sent", p)}
					}
					if k <= idx && c.readers <= 1 {
						return out, &explore.Violation{Sig: "C11 reordered", Msg: c.name() + fmt.Sprintf(": remote %s's datagrams were read as %v, sent as %v", r, got, injected[r])}
					}
					idx = k
				}
			}
			for _, r := range probed {
				ok := false
				for _, p := range perRemote[r] {
					ok = ok || p == r+"-probe"
				}
				if !ok {
					return out, &explore.Violation{Sig: "C11 refused-datagram-left-state", Msg: c.name() + fmt.Sprintf(": remote %s had no connection and the backlog was empty, yet its next datagram did not produce a connection that delivers it (an earlier refused datagram must create nothing); all reads: %s", r, out)}
				}
			}
			// completeness when nothing may be refused for lack of room
			if c.backlog >= len(c.remotes)+1 && !c.closer {
				for _, r := range c.remotes {
					want := injected[r]
					if c.filter {
						want = want[1:] // the "-0" datagram is refused while the remote is unknown
					}
					gotR := perRemote[r]
					if c.readers > 1 {
						// several readers of one connection append to the log in the order they return, not the order they were served
						gotR = append([]string(nil), gotR...)
						sort.Strings(gotR)
						want = append([]string(nil), want...)
						sort.Strings(want)
					}
					if fmt.Sprint(gotR) != fmt.Sprint(want) && !(len(want) == 0 && len(gotR) == 0) {
						return out, &explore.Violation{Sig: "C11 lost", Msg: c.name() + fmt.Sprintf(": remote %s sent %v, its connection delivered %v (expected %v); all reads: %s", r, injected[r], perRemote[r], want, out)}
					}
				}
			}
			if c.closer && lateInjected && c.backlog >= len(c.remotes)+1 {
				// the late datagram must have produced a fresh connection that delivers it
				r := c.remotes[0]
				n := 0
				var last *connLog
				for _, lg := range logs {
					if lg.remote == r {
						n++
						last = lg
					}
				}
				hasLate := false
				if last != nil {
					for _, p := range last.got {
						hasLate = hasLate || p == r+"-late"
					}
				}
				if lateBInjected {
					okB := false
					for _, lg := range logs {
						if lg.remote == r && lg.gen > firstGen[r] {
							for _, p := range lg.got {
								okB = okB || p == r+"-lateB"
							}
						}
					}
					if !okB {
						return out, &explore.Violation{Sig: "C11 no-fresh-conn-after-close", Msg: c.name() + fmt.Sprintf(": a second, concurrent Close of the connection of %s had returned, yet the datagram sent afterwards did not arrive on a fresh connection; all reads: %s", r, out)}
					}
				}
				if n < 2 || !hasLate {
					return out, &explore.Violation{Sig: "C11 no-fresh-conn-after-close", Msg: c.name() + fmt.Sprintf(": after closing the connection of %s a new datagram from it did not arrive on a fresh connection; all reads: %s", r, out)}
				}
			}
			return out, nil
		}
		return body, check
	}
	return sc
}

// c11big: one remote sends datagrams whose sizes are around half of the connection's initial
// 2048-byte receive ring, so that two or three unread datagrams fill it to the byte, wrapped or
// not; reads are interleaved.  Sequential (one schedule per script); the per-connection FIFO
// must return every datagram byte-identical and in order.
func c11big(steps int) *explore.Scenario {
	sc := &explore.Scenario{Name: fmt.Sprintf("listener one remote, ring-filling datagrams, %d steps", steps), Bound: 0}
	sc.Cfg.Horizon = 10 * time.Second
	sc.Cfg.Strict = true
	sizes := []int{1000, 1020, 1023, 1, 1021}
	sc.Make = func() (func(), func(*zzvsched.Exec) (string, *explore.Violation)) {
		var viol *explore.Violation
		var script []string
		finished := false
		body := func() {
			fakenet.Reset()
			l, err := udp.Listen("udp", &net.UDPAddr{IP: net.IPv4(127, 0, 0, 1), Port: 4000})
			if err != nil {
				panic(err)
			}
			sock := fakenet.Sockets[0]
			ra := udpRemotes["a1"]
			var model [][]byte
			seq := 0
			send := func(n int) {
				seq++
				p := make([]byte, n)
				for i := range p {
					p[i] = byte(seq*29 + i*5 + 1)
				}
				p[0] = byte(seq)
				model = append(model, append([]byte(nil), p...))
				sock.Inject(ra, p)
				zzvsched.WaitIdle()
			}
			send(1000)
			script = append(script, "W1000")
			cn, err := l.Accept()
			if err != nil {
				panic(err)
			}
			read := func() bool {
				buf := make([]byte, 4096)
				n, err := cn.Read(buf)
				want := model[0]
				model = model[1:]
				if err != nil || n != len(want) || string(buf[:n]) != string(want) {
					viol = &explore.Violation{Sig: "C11 big-datagram-corrupted", Msg: fmt.Sprintf("script %v: the connection returned %d bytes (err %v, first byte %d) where datagram #%d of %d bytes was next", script, n, err, buf[0], want[0], len(want))}
					return false
				}
				return true
			}
			for i := 0; i < steps; i++ {
				k := zzvsched.Choose(len(sizes) + 1)
				if k == len(sizes) {
					if len(model) == 0 {
						script = append(script, "skip")
						continue
					}
					script = append(script, "R")
					if !read() {
						return
					}
					continue
				}
				script = append(script, fmt.Sprintf("W%d", sizes[k]))
				send(sizes[k])
			}
			for len(model) > 0 {
				if !read() {
					return
				}
			}
			finished = true
		}
		check := func(ex *zzvsched.Exec) (string, *explore.Violation) {
			out := strings.Join(script, ",")
			if len(ex.Panics) > 0 {
				return out, &explore.Violation{Sig: "C11 panic", Msg: fmt.Sprintf("script %v: panic: %s", script, ex.Panics[0].Value)}
			}
			if viol != nil {
				return out, viol
			}
			if !finished && !ex.HorizonHit {
				return out, &explore.Violation{Sig: "C11 big-datagram-blocked", Msg: fmt.Sprintf("script %v: a Read blocked although a datagram was delivered: %v", script, ex.Parked)}
			}
			return out, nil
		}
		return body, check
	}
	return sc
}

// c11full: datagrams that fill the listener's receive buffer exactly (8192 bytes, the largest it can take in
// one read) and one byte less, from a known and from a new remote: each is a legal datagram and must come out of
// its connection whole, in order.
func c11full() *explore.Scenario {
	sc := &explore.Scenario{Name: "listener, datagrams of 8191 and 8192 bytes (the receive buffer's size)", Bound: 0}
	sc.Cfg.Horizon = 10 * time.Second
	sc.Cfg.Strict = true
	sc.Make = func() (func(), func(*zzvsched.Exec) (string, *explore.Violation)) {
		var viol *explore.Violation
		finished := false
		step := ""
		body := func() {
			fakenet.Reset()
			l, err := udp.Listen("udp", &net.UDPAddr{IP: net.IPv4(127, 0, 0, 1), Port: 4000})
			if err != nil {
				panic(err)
			}
			sock := fakenet.Sockets[0]
			mk := func(seq, n int) []byte {
				p := make([]byte, n)
				for i := range p {
					p[i] = byte(seq*31 + i*7 + 1)
				}
				return p
			}
			expect := func(cn net.Conn, want []byte) bool {
				buf := make([]byte, 16384)
				n, err := cn.Read(buf)
				if err != nil || n != len(want) || string(buf[:n]) != string(want) {
					viol = &explore.Violation{Sig: "C11 full-size-datagram", Msg: fmt.Sprintf("%s: the connection returned (n=%d, err=%v) where a datagram of %d bytes was next", step, n, err, len(want))}
					return false
				}
				return true
			}
			// a new remote whose FIRST datagram has the full size
			step = "first datagram of remote b1 is 8192 bytes"
			p0 := mk(1, 8192)
			sock.Inject(udpRemotes["b1"], p0)
			zzvsched.WaitIdle()
			cb, err := l.Accept()
			if err != nil {
				viol = &explore.Violation{Sig: "C11 full-size-datagram", Msg: step + ": Accept failed: " + err.Error()}
				return
			}
			if !expect(cb, p0) {
				return
			}
			// a known remote: 8191, 8192, 1 bytes in a row
			sock.Inject(udpRemotes["a1"], mk(2, 5))
			zzvsched.WaitIdle()
			ca, err := l.Accept()
			if err != nil {
				panic(err)
			}
			if !expect(ca, mk(2, 5)) {
				return
			}
			var model [][]byte
			for k, n := range []int{8191, 8192, 1, 8192} {
				p := mk(3+k, n)
				model = append(model, p)
				sock.Inject(udpRemotes["a1"], append([]byte(nil), p...))
			}
			zzvsched.WaitIdle()
			for k, want := range model {
				step = fmt.Sprintf("datagram #%d (%d bytes) of a known remote", k+1, len(want))
				if !expect(ca, want) {
					return
				}
			}
			finished = true
		}
		check := func(ex *zzvsched.Exec) (string, *explore.Violation) {
			out := step
			if len(ex.Panics) > 0 {
				return out, &explore.Violation{Sig: "C11 panic", Msg: fmt.Sprintf("%s: panic: %s", step, ex.Panics[0].Value)}
			}
			if viol != nil {
				return out, viol
			}
			if !finished && !ex.HorizonHit {
				return out, &explore.Violation{Sig: "C11 full-size-datagram", Msg: fmt.Sprintf("%s: a Read or Accept blocked although the datagram was delivered to the socket: %v", step, ex.Parked)}
			}
			return out, nil
		}
		return body, check
	}
	return sc
}

// ------------------------------------------------------------------ C12

type c12cfg struct {
	accepted, unaccepted int
	pendingAccept        bool
	pendingRead          bool
	late                 bool
	lateNew              bool // a datagram from a remote the listener has never seen, racing with Close
	twoClosers           bool // the listener is closed from two threads at once
	connTwoClosers       bool // every accepted connection is closed from two threads at once
	backlog              int  // accept queue length (0 = default 128): with 1, a second un-accepted remote overflows the queue and is dropped
	batch                bool // batch I/O enabled: the socket is wrapped and a flush ticker goroutine runs until the wrapper is closed
	bound                int
}

func (c c12cfg) name() string {
	s := fmt.Sprintf("lifecycle accepted=%d unaccepted=%d", c.accepted, c.unaccepted)
	if c.pendingAccept {
		s += " +Accept"
	}
	if c.pendingRead {
		s += " +Read"
	}
	if c.late {
		s += " +late-datagram"
	}
	if c.lateNew {
		s += " +late-datagram-from-new-remote"
	}
	if c.twoClosers {
		s += " +second-concurrent-listener-Close"
	}
	if c.connTwoClosers {
		s += " +second-concurrent-conn-Close"
	}
	if c.batch {
		s += " +batch-io"
	}
	if c.backlog > 0 {
		s += fmt.Sprintf(" backlog=%d", c.backlog)
	}
	return s
}

func c12scenario(c c12cfg) *explore.Scenario {
	sc := &explore.Scenario{Name: c.name(), Bound: c.bound}
	sc.Cfg.Horizon = 10 * time.Second
	if c.batch {
		sc.Cfg.Horizon = 2 * time.Second // the flush ticker (25 ms) stops only when the wrapper is closed
	}
	sc.Make = func() (func(), func(*zzvsched.Exec) (string, *explore.Violation)) {
		var viol *explore.Violation
		fail := func(sig, format string, a ...any) {
			if viol == nil {
				viol = &explore.Violation{Sig: "C12 " + sig, Msg: c.name() + ": " + fmt.Sprintf(format, a...)}
			}
		}
		var sock *fakenet.UDPConn
		listenerCloseBegun, listenerCloseDone := false, false
		type cs struct {
			conn       net.Conn
			closeBegun bool
			closeDone  bool
			name       string
		}
		var conns []*cs
		var outcome []string
		readReturned, acceptReturned := !c.pendingRead, !c.pendingAccept
		invariant := func(when string) {
			if !sock.Closed() {
				return
			}
			if !listenerCloseBegun {
				fail("socket-closed-early", "%s: the shared socket is closed although the listener has not been closed", when)
			}
			for _, x := range conns {
				if !x.closeBegun {
					fail("socket-closed-under-open-conn", "%s: the shared socket is closed although the accepted connection %s has not been closed", when, x.name)
				}
			}
		}
		// "closed once the listener and every accepted connection have been closed": judged at the instant the
		// last of those Close calls returns (no scheduling point lies between a Close returning and its flag)
		lastCloseReturned := func(who string) {
			if !listenerCloseDone || !acceptReturned {
				return // a pending Accept may still be handing out a queued connection, which keeps the socket open
			}
			for _, x := range conns {
				if !x.closeDone {
					return
				}
			}
			if !sock.Closed() {
				fail("socket-open-after-last-close", "%s returned as the last of the Close calls of the listener and its %d accepted connection(s), but the shared socket is still open", who, len(conns))
			}
		}
		body := func() {
			fakenet.Reset()
			lc := udp.ListenConfig{Backlog: c.backlog}
			if c.batch {
				lc.Batch = udp.BatchIOConfig{Enable: true, ReadBatchSize: 2, WriteBatchSize: 2, WriteBatchInterval: 50 * time.Millisecond}
			}
			l, err := lc.Listen("udp", &net.UDPAddr{IP: net.IPv4(127, 0, 0, 1), Port: 4000})
			if err != nil {
				panic(err)
			}
			sock = fakenet.Sockets[0]
			sock.OnClose = func() { invariant("at the moment the socket was closed") }
			names := []string{"a1", "a2", "b1"}
			for i := 0; i < c.accepted; i++ {
				sock.Inject(udpRemotes[names[i]], []byte(names[i]+"-0"))
				cn, err := l.Accept()
				if err != nil {
					panic(err)
				}
				buf := make([]byte, 16)
				if n, err := cn.Read(buf); err != nil || string(buf[:n]) != names[i]+"-0" {
					fail("setup", "first datagram unreadable")
				}
				conns = append(conns, &cs{conn: cn, name: names[i]})
			}
			for i := 0; i < c.unaccepted; i++ {
				nm := names[c.accepted+i]
				sock.Inject(udpRemotes[nm], []byte(nm+"-0"))
			}
			zzvsched.WaitIdle() // the read loop has queued the unaccepted connections
			zzvsched.GoNamed("close-listener", func() {
				listenerCloseBegun = true
				if err := l.Close(); err != nil {
					fail("listener-close-error", "listener Close returned %v", err)
				}
				listenerCloseDone = true
				lastCloseReturned("the listener's Close")
				if err := l.Close(); err != nil {
					fail("listener-close-not-idempotent", "second listener Close returned %v", err)
				}
				// later Accept calls fail
				if cn, err := l.Accept(); err == nil {
					// a connection that was already queued may legitimately be handed out? No: Close discards them.
					fail("accept-after-close", "Accept after the listener's Close returned a connection (%v)", cn.RemoteAddr())
				}
			})
			if c.twoClosers {
				// Close is idempotent however concurrently: once ANY Close call has returned, Accept fails
				zzvsched.GoNamed("close-listener-2", func() {
					listenerCloseBegun = true
					if err := l.Close(); err != nil {
						fail("listener-close-error", "second concurrent listener Close returned %v", err)
					}
					if cn, err := l.Accept(); err == nil {
						fail("accept-after-close", "Accept after a listener Close call had returned handed out a connection (%v)", cn.RemoteAddr())
					}
				})
			}
			for _, x := range conns {
				x := x
				if c.pendingRead && x == conns[0] {
					zzvsched.GoNamed("read-"+x.name, func() {
						buf := make([]byte, 16)
						n, err := x.conn.Read(buf)
						readReturned = true
						outcome = append(outcome, fmt.Sprintf("read:%d,%v", n, err != nil))
					})
				}
				if c.connTwoClosers {
					zzvsched.GoNamed("close2-"+x.name, func() {
						x.closeBegun = true
						if err := x.conn.Close(); err != nil {
							fail("conn-close-error", "concurrent second conn Close returned %v", err)
						}
					})
				}
				zzvsched.GoNamed("close-"+x.name, func() {
					// an accepted connection works until it is closed itself
					if listenerCloseDone && !sock.Closed() && !c.connTwoClosers { // (with two closers the other one may already have closed it)
						if _, err := x.conn.Write([]byte("reply-" + x.name)); err != nil {
							fail("write-on-open-conn-failed", "Write on the open accepted connection %s failed after the listener was closed: %v", x.name, err)
						}
					}
					x.closeBegun = true
					if err := x.conn.Close(); err != nil {
						fail("conn-close-error", "conn Close returned %v", err)
					}
					x.closeDone = true
					lastCloseReturned("Close of connection " + x.name)
					if err := x.conn.Close(); err != nil {
						fail("conn-close-not-idempotent", "second conn Close returned %v", err)
					}
				})
			}
			if c.pendingAccept {
				zzvsched.GoNamed("accept", func() {
					cn, err := l.Accept()
					acceptReturned = true
					if err != nil {
						outcome = append(outcome, "accept:err")
						return
					}
					outcome = append(outcome, "accept:conn")
					x := &cs{conn: cn, name: "late-accepted"}
					conns = append(conns, x)
					invariant("when Accept returned a connection")
					if _, err := cn.Write([]byte("hello")); err != nil {
						fail("accepted-conn-unusable", "Accept returned a connection, but writing on it failed: %v", err)
					}
					x.closeBegun = true
					_ = cn.Close()
					x.closeDone = true
					lastCloseReturned("Close of the late-accepted connection")
				})
			}
			if c.late {
				zzvsched.GoNamed("late-datagram", func() {
					sock.Inject(udpRemotes["a1"], []byte("a1-late"))
				})
			}
			if c.lateNew {
				zzvsched.GoNamed("late-datagram-new", func() {
					sock.Inject(&net.UDPAddr{IP: net.IPv4(10, 0, 0, 9), Port: 9}, []byte("new-0"))
				})
			}
		}
		check := func(ex *zzvsched.Exec) (string, *explore.Violation) {
			sort.Strings(outcome)
			out := strings.Join(outcome, ",") + fmt.Sprintf(" closes=%d", sock.Closes)
			if len(ex.Panics) > 0 {
				return out, &explore.Violation{Sig: "C12 panic", Msg: c.name() + ": panic: " + ex.Panics[0].Value + "\n" + ex.Panics[0].Stack}
			}
			if viol != nil {
				return out, viol
			}
			if ex.HorizonHit {
				allClosed := listenerCloseDone
				for _, x := range conns {
					allClosed = allClosed && x.closeDone
				}
				if c.batch && allClosed {
					// every Close returned long ago, yet timers of the package keep firing until the horizon
					return out + " HORIZON", &explore.Violation{Sig: "C12 goroutine-leaked", Msg: c.name() + fmt.Sprintf(": the listener and every accepted connection were closed, yet %v later the package is still active (a goroutine keeps waking on a timer): %v", ex.EndClock, ex.Parked)}
				}
				return out + " HORIZON", nil
			}
			// everything has been closed by now
			if !listenerCloseDone {
				return out, &explore.Violation{Sig: "C12 listener-close-blocked", Msg: c.name() + fmt.Sprintf(": the listener's Close never returned: %v", ex.Parked)}
			}
			for _, x := range conns {
				if !x.closeDone {
					return out, &explore.Violation{Sig: "C12 conn-close-blocked", Msg: c.name() + fmt.Sprintf(": Close of connection %s never returned: %v", x.name, ex.Parked)}
				}
			}
			if !readReturned {
				return out, &explore.Violation{Sig: "C12 read-not-unblocked", Msg: c.name() + ": a pending Read was not unblocked by Close"}
			}
			if !acceptReturned {
				return out, &explore.Violation{Sig: "C12 accept-not-unblocked", Msg: c.name() + ": a pending Accept was not unblocked by the listener's Close"}
			}
			if !sock.Closed() {
				return out, &explore.Violation{Sig: "C12 socket-leaked", Msg: c.name() + fmt.Sprintf(": listener and all accepted connections are closed but the shared socket is still open (parked: %v)", ex.Parked)}
			}
			if sock.Closes != 1 {
				return out, &explore.Violation{Sig: "C12 socket-closed-twice", Msg: c.name() + fmt.Sprintf(": the shared socket was closed %d times", sock.Closes)}
			}
			for _, p := range ex.Parked {
				if strings.HasPrefix(p.Name, "main.") { // spawned by package udp itself
					return out, &explore.Violation{Sig: "C12 goroutine-leaked", Msg: c.name() + fmt.Sprintf(": a goroutine of package udp is still running after everything was closed: %+v", p)}
				}
			}
			return out, nil
		}
		return body, check
	}
	return sc
}

func init() {
	register(&Check{ID: "C11", YieldOnRelease: true,
		Scenarios: func(tier string) []*explore.Scenario {
			b := 1
			if tier == "thorough" {
				b = 2
			}
			sb := 2 // strict bound for the many-thread configurations
			if tier == "thorough" {
				sb = 3
			}
			cfgs := []c11cfg{
				{remotes: []string{"a1", "a2"}, per: 2, backlog: 128, bound: b},
				{remotes: []string{"a1", "a2"}, per: 2, backlog: 128, filter: true, bound: b},
				{remotes: []string{"a1", "a2"}, per: 2, backlog: 1, bound: b},
				{remotes: []string{"a1", "a2", "b1"}, per: 2, backlog: 128, bound: sb, strict: true},
				{remotes: []string{"a1", "a2", "b1"}, per: 2, backlog: 2, bound: sb, strict: true},
				{remotes: []string{"a1", "a2"}, per: 2, backlog: 128, batch: 2, partial: true, bound: sb, strict: true},
				{remotes: []string{"a1", "a2", "b1"}, per: 1, backlog: 128, batch: 3, bound: sb, strict: true},
				{remotes: []string{"a1", "a2"}, per: 2, backlog: 128, batch: 3, filter: true, bound: sb, strict: true},
				{remotes: []string{"a1", "a2"}, per: 2, backlog: 1, batch: 2, bound: sb, strict: true},
				{remotes: []string{"a1", "b1"}, per: 2, backlog: 128, closer: true, bound: sb, strict: true},
				// one remote keeps sending while its connection is being closed (few threads: a deeper bound is affordable)
				{remotes: []string{"a1"}, per: 3, backlog: 128, closer: true, bound: sb + 1, strict: true},
				{remotes: []string{"a1"}, per: 1, backlog: 128, closer: true, closer2: true, bound: sb, strict: true},
				// two readers blocked on one connection: every datagram that arrives must reach one of them
				// (the wake-up has to be passed on while datagrams remain)
				{remotes: []string{"a1"}, per: 3, backlog: 128, readers: 2, bound: sb + 1, strict: true},
				{remotes: []string{"a1", "a2"}, per: 2, backlog: 128, readers: 2, bound: sb, strict: true},
				// ... and each reader takes exactly one datagram, so that neither can drain the queue for the other
				{remotes: []string{"a1"}, per: 2, backlog: 128, readers: 2, reads: 1, bound: sb + 1, strict: true},
				{remotes: []string{"a1"}, per: 3, backlog: 128, readers: 3, reads: 1, bound: sb, strict: true},
			}
			if tier == "thorough" {
				cfgs = append(cfgs,
					c11cfg{remotes: []string{"a1", "a2", "b1"}, per: 1, backlog: 128, bound: 1},
					c11cfg{remotes: []string{"a1", "a2", "b1"}, per: 1, backlog: 2, bound: 1},
					c11cfg{remotes: []string{"a1", "b1"}, per: 1, backlog: 128, closer: true, bound: 1})
			}
			var out []*explore.Scenario
			for _, c := range cfgs {
				out = append(out, c11scenario(c))
			}
			if tier == "thorough" {
				out = append(out, c11big(7))
			} else {
				out = append(out, c11big(5))
			}
			out = append(out, c11full())
			return out
		},
		Rule:        "one remote sending every script of 5 (thorough 7) steps over {datagrams of 1000/1020/1021/1023/1 bytes, Read} so that unread datagrams fill the connection's receive ring to the byte; datagrams of 8191 and 8192 bytes (the receive buffer's size) as first datagram of a new remote and in a row from a known one; remotes {10.0.0.1:15, 10.0.0.1:16, 10.0.0.11:5} (same IP / different port, and texts that collide without the separator) injecting 1-2 tagged datagrams each from their own threads, an accepter thread, one reader thread per accepted connection (two or three in the readers-per-conn configurations, looping or taking exactly one datagram each; every datagram must still reach one of them), optionally closing a connection (also from two threads at once) and sending again; backlog {1,2,128}, accept filter {none, reject-first}, batch read {off,2,3 with partial batches}; every interleaving within the deviation bound over the scheduler-visible fake socket",
		Assumptions: []string{"OS socket and ipv4.PacketConn batching replaced by zzvsched/fakenet", "completeness is asserted only where nothing may be refused (backlog larger than the number of remotes, no concurrent Close)"}})
	register(&Check{ID: "C12", YieldOnRelease: true,
		Scenarios: func(tier string) []*explore.Scenario {
			b := 2
			cfgs := []c12cfg{
				{accepted: 0, unaccepted: 1, pendingAccept: true, bound: b},
				{accepted: 1, unaccepted: 0, pendingRead: true, bound: b},
				{accepted: 1, unaccepted: 1, pendingAccept: true, bound: b},
				{accepted: 2, unaccepted: 0, bound: b},
				{accepted: 1, unaccepted: 0, late: true, bound: b},
				{accepted: 0, unaccepted: 0, lateNew: true, bound: b},
				{accepted: 1, unaccepted: 0, lateNew: true, bound: b},
				// a never-seen remote's first datagram races with the listener's Close AND a pending Accept
				{accepted: 0, unaccepted: 0, lateNew: true, pendingAccept: true, bound: b},
				{accepted: 0, unaccepted: 1, twoClosers: true, bound: b},
				{accepted: 1, unaccepted: 1, twoClosers: true, bound: b},
				{accepted: 1, unaccepted: 0, connTwoClosers: true, bound: b},
				{accepted: 2, unaccepted: 0, connTwoClosers: true, bound: 1},
				{accepted: 1, unaccepted: 0, batch: true, bound: b},
				{accepted: 1, unaccepted: 1, pendingAccept: true, batch: true, bound: 1},
				// the accept queue overflows: the dropped remote must leave nothing behind that keeps the socket open
				{accepted: 1, unaccepted: 2, backlog: 1, bound: b},
				{accepted: 0, unaccepted: 2, backlog: 1, pendingAccept: true, bound: 1},
			}
			if tier == "thorough" {
				// unbounded (closed by the state cache) for the smallest lifecycles
				cfgs[0].bound, cfgs[1].bound, cfgs[5].bound = -1, -1, -1
				cfgs = append(cfgs, c12cfg{accepted: 2, unaccepted: 1, pendingAccept: true, pendingRead: true, bound: 2},
					c12cfg{accepted: 1, unaccepted: 1, pendingAccept: true, late: true, bound: 3},
					c12cfg{accepted: 0, unaccepted: 1, pendingAccept: true, bound: 4})
			}
			var out []*explore.Scenario
			for _, c := range cfgs {
				out = append(out, c12scenario(c))
			}
			return out
		},
		Rule:        "0-2 accepted and 0-1 unaccepted connections; threads: listener Close (twice, then Accept; optionally from two threads at once), each connection's Close (twice, after a Write; optionally from two threads at once), a pending Accept, a pending Read, a late datagram; two lifecycles whose accept queue (length 1) overflows; two lifecycles with batch I/O enabled (wrapped socket with a flush ticker goroutine that must end with the last Close); every interleaving within the deviation bound; invariant checked at the instant the fake socket is closed and whenever Accept returns a connection: socket closed => listener Close begun and no accepted connection unclosed; at quiescence: socket closed exactly once, no goroutine of package udp left, pending calls unblocked",
		Assumptions: []string{"that the kernel frees the port when net.UDPConn.Close returns is trusted, not explored"}})
}
