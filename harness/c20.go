package main

import (
	"fmt"
	"unsafe"

	"github.com/pion/transport/v3/utils/xor"
	xorold "github.com/pion/transport/v3/zzvsched/xorold"
)

// C20 — XorBytes equals bytewise XOR over the common prefix, for all lengths,
// alignments and the aliasing patterns dst==a, dst==b.  Full enumeration.

const xorArena = 192

type xorImpl struct {
	name string
	f    func(dst, a, b []byte) int
}

func alignedArena() []byte {
	w := make([]uint64, xorArena/8+2)
	return unsafe.Slice((*byte)(unsafe.Pointer(&w[0])), xorArena)
}

// xorSafe calls an implementation and turns a panic (reading or writing out of range) into a verdict.
func xorSafe(f func(dst, a, b []byte) int, dst, a, b []byte) (r int, panicked string) {
	defer func() {
		if x := recover(); x != nil {
			panicked = fmt.Sprint(x)
		}
	}()
	return f(dst, a, b), ""
}

func runXor(tier string, shard, shards int, rep *SeqReport) {
	impls := []xorImpl{{"generic", xor.XorBytes}}
	if xorold.Present {
		impls = append(impls, xorImpl{"old", xorold.XorBytes})
	}
	// lengths beyond 64: implementations switch to word / block loops with a tail
	maxLen := 72
	offs := []int{0, 1, 3, 7}
	if tier == "thorough" {
		maxLen = 136
		offs = []int{0, 1, 2, 3, 4, 5, 6, 7}
	}
	A, B, D := alignedArena(), alignedArena(), alignedArena()
	A0, B0, D0 := make([]byte, xorArena), make([]byte, xorArena), make([]byte, xorArena)
	pats := []func(i int) (byte, byte, byte){
		func(i int) (byte, byte, byte) { return byte(i*7 + 1), byte(i*13 + 5), 0xEE },
		func(i int) (byte, byte, byte) { return 0xFF, byte(i), 0x00 },
		func(i int) (byte, byte, byte) { return byte(0x80 >> (i % 8)), 0xAA, 0x55 },
		// operands with zero / all-ones words at the head, the tail and throughout (content-dependent shortcuts)
		func(i int) (byte, byte, byte) { return byte(i*5 + 9), 0x00, 0x77 },
		func(i int) (byte, byte, byte) { return 0x00, byte(i*3 + 1), 0x77 },
		func(i int) (byte, byte, byte) {
			if (i/8)%2 == 0 {
				return byte(i + 1), 0x00, 0x33
			}
			return 0xFF, byte(i * 9), 0x33
		},
	}
	unit := 0
	for _, im := range impls {
		for la := 0; la <= maxLen; la++ {
			unit++
			if (unit-1)%shards != shard {
				continue
			}
			var cnt int64
			for lb := 0; lb <= maxLen; lb++ {
				n := la
				if lb < n {
					n = lb
				}
				for _, oa := range offs {
					for _, ob := range offs {
						for _, od := range offs {
							for alias := 0; alias < 3; alias++ {
								for extra := 0; extra < 2; extra++ {
									for pi, pat := range pats {
										for i := 0; i < xorArena; i++ {
											A[i], B[i], D[i] = pat(i)
										}
										copy(A0, A)
										copy(B0, B)
										copy(D0, D)
										a := A[8+oa : 8+oa+la]
										b := B[8+ob : 8+ob+lb]
										// an empty operand is also spelled nil (second pattern: a, third pattern: b)
										if la == 0 && pi == 1 {
											a = nil
										}
										if lb == 0 && pi == 2 {
											b = nil
										}
										var dst []byte
										dlo, dhi := 0, 0
										switch alias {
										case 0:
											dl := n
											if extra == 1 {
												dl = n + 3
											}
											dst = D[8+od : 8+od+dl]
										case 1:
											if od != offs[0] || extra == 1 {
												continue
											}
											dst = a
										case 2:
											if od != offs[0] || extra == 1 {
												continue
											}
											dst = b
										}
										_ = dlo
										_ = dhi
										r, pv := xorSafe(im.f, dst, a, b)
										cnt++
										bad := ""
										if pv != "" {
											bad = "panicked: " + pv
										} else if r != n {
											bad = fmt.Sprintf("returned %d, want %d", r, n)
										}
										// expected memory
										exp := func(buf, orig []byte, base int, isDst bool) {
											for i := 0; i < xorArena && bad == ""; i++ {
												want := orig[i]
												if isDst && i >= base && i < base+n {
													want = A0[8+oa+i-base] ^ B0[8+ob+i-base]
												}
												if buf[i] != want {
													bad = fmt.Sprintf("byte %d of the arena holding %s is %#x, want %#x", i, map[bool]string{true: "dst", false: "an input"}[isDst], buf[i], want)
												}
											}
										}
										switch alias {
										case 0:
											exp(D, D0, 8+od, true)
											exp(A, A0, 0, false)
											exp(B, B0, 0, false)
										case 1:
											exp(A, A0, 8+oa, true)
											exp(B, B0, 0, false)
											exp(D, D0, 0, false)
										case 2:
											exp(B, B0, 8+ob, true)
											exp(A, A0, 0, false)
											exp(D, D0, 0, false)
										}
										if bad != "" {
											rep.violate("xor "+im.name, "C20 wrong-result "+im.name,
												fmt.Sprintf("%s XorBytes: %s", im.name, bad),
												fmt.Sprintf("len(a)=%d len(b)=%d off(a)=%d off(b)=%d off(dst)=%d alias=%d len(dst)=%d pattern=%d", la, lb, oa, ob, od, alias, len(dst), pi))
										}
									}
								}
							}
						}
					}
				}
			}
			rep.Evaluations += cnt
			rep.Transitions += cnt
			rep.States += cnt
			rep.family("shapes "+im.name, cnt)
			rep.outcome(fmt.Sprintf("%s la=%d", im.name, la))
		}
		// large operands: lengths around every power of two up to 64 KiB (block/chunk loops with a tail),
		// equal and unequal, both aliasings, two alignments, two content patterns
		unit++
		if (unit-1)%shards == shard {
			var cnt int64
			var sizes []int
			for p := 256; p <= 65536; p *= 2 {
				sizes = append(sizes, p-1, p, p+1, p+p/2)
			}
			if tier == "thorough" {
				for p := 256; p <= 16384; p *= 2 {
					sizes = append(sizes, p-8, p-7, p+7, p+8, 3*p)
				}
			}
			const guard = 16
			for _, la := range sizes {
				for _, lb := range []int{la, la - 1, la + 5} {
					n := la
					if lb < n {
						n = lb
					}
					for _, off := range []int{0, 3} {
						for alias := 0; alias < 3; alias++ {
							for pi := 0; pi < 2; pi++ {
								mk := func(l int, salt byte) []byte {
									w := make([]uint64, (l+2*guard+8)/8+2)
									buf := unsafe.Slice((*byte)(unsafe.Pointer(&w[0])), l+2*guard+8)
									for i := range buf {
										if pi == 0 {
											buf[i] = byte(i*7+1) ^ salt
										} else if (i/2048)%2 == 0 {
											buf[i] = 0
										} else {
											buf[i] = 0xFF ^ salt
										}
									}
									return buf
								}
								Ab, Bb, Db := mk(la, 0x00), mk(lb, 0x5A), mk(n, 0xC3)
								a, b := Ab[guard+off:guard+off+la], Bb[guard+off:guard+off+lb]
								A1, B1, D1 := append([]byte(nil), Ab...), append([]byte(nil), Bb...), append([]byte(nil), Db...)
								dst := Db[guard+off : guard+off+n]
								dstBuf, dstOrig := Db, D1
								switch alias {
								case 1:
									dst, dstBuf, dstOrig = a, Ab, A1
								case 2:
									dst, dstBuf, dstOrig = b, Bb, B1
								}
								r, pv := xorSafe(im.f, dst, a, b)
								cnt++
								bad := ""
								if pv != "" {
									bad = "panicked: " + pv
								} else if r != n {
									bad = fmt.Sprintf("returned %d, want %d", r, n)
								}
								for i := 0; i < len(dstBuf) && bad == ""; i++ {
									want := dstOrig[i]
									if j := i - guard - off; j >= 0 && j < n {
										want = A1[guard+off+j] ^ B1[guard+off+j]
									}
									if dstBuf[i] != want {
										bad = fmt.Sprintf("byte %d of dst (offset %d of the result) is %#x, want %#x", i, i-guard-off, dstBuf[i], want)
									}
								}
								for _, pr := range [][2][]byte{{Ab, A1}, {Bb, B1}, {Db, D1}} {
									if &pr[0][0] == &dstBuf[0] {
										continue
									}
									for i := range pr[0] {
										if pr[0][i] != pr[1][i] && bad == "" {
											bad = fmt.Sprintf("byte %d of an operand that is not dst changed", i)
										}
									}
								}
								if bad != "" {
									rep.violate("xor large "+im.name, "C20 wrong-result "+im.name,
										fmt.Sprintf("%s XorBytes: %s", im.name, bad),
										fmt.Sprintf("len(a)=%d len(b)=%d off=%d alias=%d pattern=%d", la, lb, off, alias, pi))
								}
							}
						}
					}
				}
			}
			rep.Evaluations += cnt
			rep.Transitions += cnt
			rep.States += cnt
			rep.family("large "+im.name, cnt)
		}
		// all operands inside ONE buffer: dst is exactly one operand, the other operand is the block directly
		// before / after it (touching, or 1 or 8 bytes apart); also dst as the adjacent block of both inputs
		unit++
		if (unit-1)%shards == shard {
			var cnt int64
			for _, n := range []int{1, 2, 7, 8, 9, 16, 17, 31, 32, 33, 64, 65, 100, 128, 255} {
				for _, gap := range []int{0, 1, 8} {
					for layout := 0; layout < 6; layout++ {
						for _, base := range []int{8, 11} {
							buf := make([]byte, base+3*n+2*gap+24)
							for i := range buf {
								buf[i] = byte(i*11 + 3)
							}
							orig := append([]byte(nil), buf...)
							p0, p1, p2 := base, base+n+gap, base+2*n+2*gap
							blk := func(p int) []byte { return buf[p : p+n : p+n] }
							var dst, a, b []byte
							var dp, ap, bp int
							switch layout {
							case 0: // dst==a, b right after
								dp, ap, bp = p0, p0, p1
							case 1: // dst==a, b right before
								dp, ap, bp = p1, p1, p0
							case 2: // dst==b, a right after
								dp, ap, bp = p0, p1, p0
							case 3: // dst==b, a right before
								dp, ap, bp = p1, p0, p1
							case 4: // a, dst, b in a row
								dp, ap, bp = p1, p0, p2
							case 5: // dst, a, b in a row
								dp, ap, bp = p0, p1, p2
							}
							dst, a, b = blk(dp), blk(ap), blk(bp)
							r, pv := xorSafe(im.f, dst, a, b)
							cnt++
							bad := ""
							if pv != "" {
								bad = "panicked: " + pv
							} else if r != n {
								bad = fmt.Sprintf("returned %d, want %d", r, n)
							}
							for i := range buf {
								want := orig[i]
								if i >= dp && i < dp+n {
									want = orig[ap+i-dp] ^ orig[bp+i-dp]
								}
								if buf[i] != want && bad == "" {
									bad = fmt.Sprintf("byte %d of the shared buffer (dst starts at %d) is %#x, want %#x", i, dp, buf[i], want)
								}
							}
							if bad != "" {
								rep.violate("xor adjacent "+im.name, "C20 wrong-result "+im.name,
									fmt.Sprintf("%s XorBytes: %s", im.name, bad),
									fmt.Sprintf("one buffer: n=%d gap=%d dst@%d a@%d b@%d", n, gap, dp, ap, bp))
							}
						}
					}
				}
			}
			rep.Evaluations += cnt
			rep.Transitions += cnt
			rep.States += cnt
			rep.family("adjacent "+im.name, cnt)
		}
		// the two INPUTS are overlapping views of one buffer (inputs are only read, so any overlap is allowed):
		// the same start with different lengths, or b starting 1 / 8 bytes inside a; dst separate (exactly n
		// or longer), or - for the same start - dst identical to a
		unit++
		if (unit-1)%shards == shard {
			var cnt int64
			lens := []int{0, 1, 2, 7, 8, 9, 16, 17, 33, 64, 65, 100}
			for _, la := range lens {
				for _, lb := range lens {
					for _, shift := range []int{0, 1, 8} {
						for dmode := 0; dmode < 3; dmode++ {
							if dmode == 2 && shift != 0 {
								continue // dst would overlap b inexactly: outside the documented contract
							}
							n := la
							if lb < n {
								n = lb
							}
							buf := make([]byte, 16+shift+la+lb+16)
							for i := range buf {
								buf[i] = byte(i*13 + 5)
							}
							orig := append([]byte(nil), buf...)
							a := buf[16 : 16+la]
							b := buf[16+shift : 16+shift+lb]
							sep := make([]byte, 8+n+3+8)
							for i := range sep {
								sep[i] = byte(0xC0 + i)
							}
							sepOrig := append([]byte(nil), sep...)
							var dst []byte
							switch dmode {
							case 0:
								dst = sep[8 : 8+n : 8+n]
							case 1:
								dst = sep[8 : 8+n+3]
							case 2:
								dst = a
							}
							r, pv := xorSafe(im.f, dst, a, b)
							cnt++
							bad := ""
							if pv != "" {
								bad = "panicked: " + pv
							} else if r != n {
								bad = fmt.Sprintf("returned %d, want %d", r, n)
							}
							for i := range buf {
								want := orig[i]
								if dmode == 2 && i >= 16 && i < 16+n {
									want = orig[i] ^ orig[i+shift]
								}
								if buf[i] != want && bad == "" {
									bad = fmt.Sprintf("byte %d of the inputs' buffer is %#x, want %#x", i, buf[i], want)
								}
							}
							for i := range sep {
								want := sepOrig[i]
								if dmode != 2 && i >= 8 && i < 8+n {
									want = orig[16+i-8] ^ orig[16+shift+i-8]
								}
								if sep[i] != want && bad == "" {
									bad = fmt.Sprintf("byte %d of the destination arena (dst starts at 8) is %#x, want %#x", i, sep[i], want)
								}
							}
							if bad != "" {
								rep.violate("xor overlapping inputs "+im.name, "C20 wrong-result "+im.name,
									fmt.Sprintf("%s XorBytes: %s", im.name, bad),
									fmt.Sprintf("inputs in one buffer: len(a)=%d len(b)=%d, b starts %d bytes into a, dst mode %d (0 separate exact, 1 separate longer, 2 identical to a)", la, lb, shift, dmode))
							}
						}
					}
				}
			}
			rep.Evaluations += cnt
			rep.Transitions += cnt
			rep.States += cnt
			rep.family("overlapping-inputs "+im.name, cnt)
		}
		// all byte values for n <= 2
		unit++
		if (unit-1)%shards == shard {
			var cnt int64
			for x := 0; x < 256; x++ {
				for y := 0; y < 256; y++ {
					for n := 1; n <= 2; n++ {
						a := []byte{byte(x), byte(y)}[:n]
						b := []byte{byte(y), byte(x ^ 0x5A)}[:n]
						d := []byte{0x11, 0x22, 0x33}
						r, pv := xorSafe(im.f, d[:n], a, b)
						cnt++
						ok := pv == "" && r == n && d[2] == 0x33
						for i := 0; i < n; i++ {
							ok = ok && d[i] == a[i]^b[i]
						}
						if n == 1 {
							ok = ok && d[1] == 0x22
						}
						if !ok {
							rep.violate("xor "+im.name, "C20 wrong-result "+im.name, "wrong XOR of byte values",
								fmt.Sprintf("a=%v b=%v got=%v", a, b, d))
						}
					}
				}
			}
			rep.Evaluations += cnt
			rep.Transitions += cnt
			rep.States += cnt
			rep.family("values "+im.name, cnt)
		}
	}
	rep.sample("generic: len(a)=5 len(b)=9 off(a)=1 off(b)=3 off(dst)=7 alias=none len(dst)=8 pattern=0")
	rep.sample("old: len(a)=17 len(b)=17 off(a)=0 off(b)=0 alias dst==a pattern=2")
}

func init() {
	register(&Check{ID: "C20", Seq: runXor,
		Rule: "full enumeration: len(a), len(b) in 0..72 (thorough 0..136) independently x start offsets mod 8 of a, b, dst (quick {0,1,3,7}, thorough 0..7) x aliasing {none, dst==a, dst==b} x dst exactly n or n+3 long x 3 content patterns (an empty operand is also spelled nil), plus all 256x256 byte values for n<=2, plus operands that are adjacent blocks of one buffer (dst identical to one input, the other input touching it or 1/8 bytes away), plus inputs that are overlapping views of one buffer (same start with different lengths, or b starting 1/8 bytes into a), plus large operands (lengths p-1, p, p+1, 1.5p for every power of two p = 256..65536, equal and unequal, both aliasings, two alignments, two content patterns); on the implementation this toolchain builds (xor_generic.go) and on xor_old.go compiled with its build constraint lifted; every byte of the three guarded arenas is compared",
		Assumptions: []string{"xor_arm.go/.s cannot execute on amd64 and no emulator is installed: the ARM assembly is not covered",
			"contents come from 6 patterns incl. zero and all-ones words (XOR is bitwise-independent) plus all byte pairs for n<=2"}})
}
