package main

import (
	"os"
	"runtime/pprof"
)

func init() {
	if p := os.Getenv("VERIF_CPUPROFILE"); p != "" && len(os.Args) > 3 && os.Args[3] == "--worker" {
		f, _ := os.Create(p)
		pprof.StartCPUProfile(f)
		profStop = func() { pprof.StopCPUProfile(); f.Close() }
	}
}

var profStop = func() {}
