package main

import (
	"bytes"
	"fmt"
	"net"
	"strconv"
	"strings"
	"time"

	"github.com/pion/logging"
	"github.com/pion/transport/v3/vnet"
	"github.com/pion/transport/v3/zzvsched"
	"verifharness/explore"
)

// C01 — vnet delivers each datagram at most once, intact, in order, to its socket only.

type natSpec struct {
	oneToOne    bool
	mapB, filtB vnet.EndpointDependencyType
}

func (n natSpec) String() string {
	if n.oneToOne {
		return "1:1"
	}
	return depName(n.mapB) + "/" + depName(n.filtB)
}

type recvItem struct {
	payload []byte
	src     string
}

type rsock struct {
	m    *mSock
	conn net.PacketConn
	got  []recvItem
	seen int // how many of got have been judged
	last string
	srcs []string // distinct sources observed, in order
}

type world struct {
	queueSize int           // RouterConfig.QueueSize for routers created from now on (0 = unlimited)
	minDelay  time.Duration // RouterConfig.MinDelay for routers created from now on
	m         *mWorld
	routers   map[string]*vnet.Router
	mrouters  map[string]*mRouter
	nets      map[string]*vnet.Net
	mhosts    map[string]*mHost
	socks     []*rsock
	errs      []string
}

func newWorld() *world {
	return &world{m: &mWorld{bind: map[string]string{}, symIP: map[string]string{}}, routers: map[string]*vnet.Router{}, mrouters: map[string]*mRouter{},
		nets: map[string]*vnet.Net{}, mhosts: map[string]*mHost{}}
}

func (w *world) router(name, cidr, parent string, nat *natSpec, statics []string) {
	cfg := &vnet.RouterConfig{Name: name, CIDR: cidr, LoggerFactory: logging.NewDefaultLoggerFactory(), StaticIPs: statics, QueueSize: w.queueSize, MinDelay: w.minDelay}
	if nat != nil {
		if nat.oneToOne {
			cfg.NATType = &vnet.NATType{Mode: vnet.NATModeNAT1To1}
		} else {
			cfg.NATType = &vnet.NATType{MappingBehavior: nat.mapB, FilteringBehavior: nat.filtB}
		}
	}
	r, err := vnet.NewRouter(cfg)
	if err != nil {
		panic(err)
	}
	_, ipn, _ := net.ParseCIDR(cidr)
	mr := &mRouter{name: name, cidr: ipn, hosts: map[string]*mHost{}, kids: map[string]*mRouter{}}
	w.routers[name], w.mrouters[name] = r, mr
	if parent != "" {
		if err := w.routers[parent].AddRouter(r); err != nil {
			panic(err)
		}
		mr.parent = w.mrouters[parent]
		mr.ips = vnet.ZZRouterAddrs(r)
		for _, ip := range mr.ips {
			mr.parent.kids[ip] = mr
		}
		mr.nat = &mNAT{mapped: mr.ips}
		if nat != nil {
			mr.nat.oneToOne, mr.nat.mapB, mr.nat.filtB = nat.oneToOne, nat.mapB, nat.filtB
		} else {
			mr.nat.mapB, mr.nat.filtB = vnet.EndpointIndependent, vnet.EndpointAddrPortDependent
		}
		if mr.nat.oneToOne {
			mr.nat.mapped = nil
			for _, s := range statics {
				p := strings.Split(s, "/")
				mr.nat.mapped = append(mr.nat.mapped, p[0])
				mr.nat.local = append(mr.nat.local, p[1])
			}
		}
	}
}

func (w *world) host(name, router string, statics ...string) {
	n, err := vnet.NewNet(&vnet.NetConfig{StaticIPs: statics})
	if err != nil {
		panic(err)
	}
	if err := w.routers[router].AddNet(n); err != nil {
		panic(err)
	}
	mh := &mHost{name: name, ips: vnet.ZZNetAddrs(n), router: w.mrouters[router]}
	for _, ip := range mh.ips {
		mh.router.hosts[ip] = mh
	}
	w.nets[name], w.mhosts[name] = n, mh
}

// sock binds a socket: ip "" = the host's first address, "*" = wildcard; remote != "" dials.
func (w *world) sock(host, ip string, port int, remote string) *rsock {
	n, mh := w.nets[host], w.mhosts[host]
	var conn net.PacketConn
	ms := &mSock{id: len(w.socks), host: mh, remote: remote}
	if remote != "" {
		c, err := n.Dial("udp", remote)
		if err != nil {
			panic(err)
		}
		conn = c.(net.PacketConn)
	} else {
		switch ip {
		case "":
			ip = mh.ips[0]
		case "*":
			ip = "0.0.0.0"
		case "#2":
			ip = mh.ips[1]
		}
		c, err := n.ListenUDP("udp", &net.UDPAddr{IP: net.ParseIP(ip), Port: port})
		if err != nil {
			panic(err)
		}
		conn = c
	}
	la := conn.LocalAddr().(*net.UDPAddr)
	ms.lip, ms.port = la.IP.String(), la.Port
	ms.name = fmt.Sprintf("%s[%s:%d]", host, ms.lip, ms.port)
	if remote != "" {
		ms.name += "->" + remote
	}
	mh.socks = append(mh.socks, ms)
	rs := &rsock{m: ms, conn: conn}
	w.socks = append(w.socks, rs)
	zzvsched.GoNamed("reader-"+ms.name, func() {
		for {
			buf := make([]byte, 2048)
			k, from, err := conn.ReadFrom(buf)
			if err != nil {
				return
			}
			rs.got = append(rs.got, recvItem{payload: buf[:k], src: from.String()})
			rs.last = from.String()
			known := false
			for _, x := range rs.srcs {
				known = known || x == rs.last
			}
			if !known {
				rs.srcs = append(rs.srcs, rs.last)
			}
		}
	})
	return rs
}

type c01topo struct {
	name  string
	build func(w *world, nat natSpec)
	dests func(w *world) []string // static destinations (besides the dynamic "observed by socket k")
}

func mkPayload(step int) []byte {
	size := []int{1500, 0, 1, 7}[step%4]
	p := make([]byte, size)
	for i := range p {
		p[i] = byte(step*37 + i*11 + 5)
	}
	if size > 0 {
		p[0] = byte(0xA0 + step)
	}
	return p
}

var c01topos = []c01topo{
	{name: "root-only", build: func(w *world, _ natSpec) {
		w.router("root", "1.2.3.0/24", "", nil, nil)
		w.host("W1", "root", "1.2.3.10")
		w.host("W2", "root", "1.2.3.20", "1.2.3.21")
		w.host("W3", "root") // automatic
		w.sock("W1", "", 7000, "")
		w.sock("W2", "*", 7000, "")
		w.sock("W2", "#2", 7001, "")
		w.sock("W3", "", 0, "")
		w.sock("W3", "", 0, "1.2.3.10:7000")
		w.sock("W1", "*", 7002, "")
	}, dests: func(w *world) []string {
		return []string{"1.2.3.10:7000", "1.2.3.20:7000", "1.2.3.21:7000", "1.2.3.21:7001", "1.2.3.20:7001", "1.2.3.10:9999", "1.2.3.99:7000", "8.8.8.8:53", "127.0.0.1:7000", "127.0.0.1:7002", "1.2.3.10:7002"}
	}},
	{name: "root+lan", build: func(w *world, nat natSpec) {
		w.router("root", "1.2.3.0/24", "", nil, nil)
		var st []string
		if nat.oneToOne {
			st = []string{"1.2.3.30/10.1.0.50", "1.2.3.31/10.1.0.51"}
		}
		w.router("lanA", "10.1.0.0/24", "root", &nat, st)
		w.host("W1", "root", "1.2.3.10")
		w.host("W2", "root", "1.2.3.20", "1.2.3.21")
		w.host("A1", "lanA", "10.1.0.50")
		w.host("A2", "lanA", "10.1.0.51", "10.1.0.52")
		w.sock("W1", "", 7000, "")
		w.sock("W2", "*", 7000, "")
		w.sock("A1", "", 6000, "")
		w.sock("A1", "", 0, "1.2.3.10:7000")
		w.sock("A2", "*", 6000, "")
		w.sock("A2", "#2", 6001, "")
		w.sock("W1", "", 7001, "") // a second port on the same remote IP
	}, dests: func(w *world) []string {
		ext := w.mrouters["lanA"].ips[0]
		return []string{"1.2.3.10:7000", "1.2.3.10:7001", "1.2.3.20:7000", "1.2.3.21:7000", "10.1.0.50:6000", "10.1.0.51:6000", "10.1.0.52:6001", "1.2.3.10:9999", "8.8.8.8:53",
			ext + ":6000", ext + ":40000", "127.0.0.1:6000", "1.2.3.31:6000", "1.2.3.30:6000"}
	}},
	{name: "root+2lans", build: func(w *world, nat natSpec) {
		w.router("root", "1.2.3.0/24", "", nil, nil)
		var stA, stC []string
		if nat.oneToOne {
			stA = []string{"1.2.3.30/10.1.0.50"}
			stC = []string{"1.2.3.40/10.3.0.50"}
		}
		w.router("lanA", "10.1.0.0/24", "root", &nat, stA)
		w.router("lanC", "10.3.0.0/24", "root", &nat, stC)
		w.host("W1", "root", "1.2.3.10")
		w.host("A1", "lanA", "10.1.0.50")
		w.host("C1", "lanC", "10.3.0.50")
		w.sock("W1", "", 7000, "")
		w.sock("A1", "*", 6000, "")
		w.sock("C1", "", 6000, "")
		w.sock("C1", "", 0, "")
	}, dests: func(w *world) []string {
		a, c := w.mrouters["lanA"].ips[0], w.mrouters["lanC"].ips[0]
		return []string{"1.2.3.10:7000", "10.1.0.50:6000", "10.3.0.50:6000", a + ":6000", c + ":6000", "1.2.3.10:9999", "9.9.9.9:9"}
	}},
	{name: "root+lan+nested", build: func(w *world, nat natSpec) {
		w.router("root", "1.2.3.0/24", "", nil, nil)
		var stA, stB []string
		if nat.oneToOne {
			stA = []string{"1.2.3.30/10.1.0.60", "1.2.3.31/10.1.0.50"}
			stB = []string{"10.1.0.60/10.2.0.50"}
		}
		w.router("lanA", "10.1.0.0/24", "root", &nat, stA)
		w.router("lanB", "10.2.0.0/24", "lanA", &nat, stB)
		w.host("W1", "root", "1.2.3.10")
		w.host("A1", "lanA", "10.1.0.50")
		w.host("B1", "lanB", "10.2.0.50")
		w.sock("W1", "", 7000, "")
		w.sock("A1", "", 6000, "")
		w.sock("B1", "*", 6000, "")
		w.sock("B1", "", 0, "")
	}, dests: func(w *world) []string {
		a, b := w.mrouters["lanA"].ips[0], w.mrouters["lanB"].ips[0]
		return []string{"1.2.3.10:7000", "10.1.0.50:6000", "10.2.0.50:6000", a + ":6000", b + ":6000", "1.2.3.10:9999", "127.0.0.1:6000"}
	}},
}

func c01nats() []natSpec {
	var out []natSpec
	for m := vnet.EndpointIndependent; m <= vnet.EndpointAddrPortDependent; m++ {
		for f := vnet.EndpointIndependent; f <= vnet.EndpointAddrPortDependent; f++ {
			out = append(out, natSpec{mapB: m, filtB: f})
		}
	}
	return append(out, natSpec{oneToOne: true})
}

// judge compares what every socket received since the last call with the expected fate.
func (w *world) judge(step int, sender *rsock, dst string, payload []byte, f fate) *explore.Violation {
	ctx := fmt.Sprintf("step %d: %s -> %s (%d bytes)", step, sender.m.name, dst, len(payload))
	for _, rs := range w.socks {
		fresh := rs.got[rs.seen:]
		rs.seen = len(rs.got)
		want := 0
		if f.sock != nil && rs.m == f.sock {
			want = 1
		}
		if len(fresh) > want {
			if want == 0 {
				return &explore.Violation{Sig: "C01 delivered-to-wrong-socket", Msg: fmt.Sprintf("%s: socket %s received %d datagram(s) (source %s) although the model %s", ctx, rs.m.name, len(fresh), fresh[0].src, fateStr(f))}
			}
			return &explore.Violation{Sig: "C01 duplicate", Msg: fmt.Sprintf("%s: socket %s received the datagram %d times", ctx, rs.m.name, len(fresh))}
		}
		if len(fresh) < want {
			return &explore.Violation{Sig: "C01 lost", Msg: fmt.Sprintf("%s: the routing and NAT rules admit the datagram to %s (showing source %s) but it never arrived", ctx, rs.m.name, w.m.resolve(f.src))}
		}
		if want == 1 {
			it := fresh[0]
			if !bytes.Equal(it.payload, payload) {
				return &explore.Violation{Sig: "C01 payload-altered", Msg: fmt.Sprintf("%s: %s received %d bytes that differ from the %d bytes written (first difference at %d)", ctx, rs.m.name, len(it.payload), len(payload), firstDiff(it.payload, payload))}
			}
			if ok, why := w.m.observe(f.src, it.src); !ok {
				return &explore.Violation{Sig: "C01 wrong-source", Msg: fmt.Sprintf("%s: %s saw %s", ctx, rs.m.name, why)}
			}
		}
	}
	return nil
}

func fateStr(f fate) string {
	if f.sock == nil {
		return "drops it (" + f.why + ")"
	}
	return "delivers it to " + f.sock.name
}

func c01plan(topo c01topo, nat natSpec, steps int, senders, destLimit int) *explore.Scenario {
	sc := &explore.Scenario{Name: fmt.Sprintf("plan %s nat=%s steps=%d", topo.name, nat, steps), Bound: 0}
	sc.Cfg.Horizon = 5 * time.Second
	sc.Cfg.Strict = true // one (default) schedule per plan: the plan space is the subject here, schedules are c01concurrent's
	sc.Cfg.RandMenu = func(n int64) []int64 { return []int64{0} }
	sc.Make = func() (func(), func(*zzvsched.Exec) (string, *explore.Violation)) {
		var viol *explore.Violation
		var script []string
		finished := false
		body := func() {
			w := newWorld()
			topo.build(w, nat)
			if err := w.routers["root"].Start(); err != nil {
				panic(err)
			}
			zzvsched.WaitQuiet(time.Millisecond)
			dests := topo.dests(w)
			if destLimit > 0 && len(dests) > destLimit {
				dests = dests[:destLimit]
			}
			nd := len(dests) + len(w.socks) // + "the source last observed by socket k"
			ns := len(w.socks)
			if senders > 0 && ns > senders {
				ns = senders
			}
			for step := 0; step < steps; step++ {
				si := zzvsched.Choose(ns)
				di := zzvsched.Choose(nd)
				s := w.socks[(si+step)%len(w.socks)] // rotate so that every socket sends in some step
				var dst string
				if di < len(dests) {
					dst = dests[di]
				} else {
					dst = w.socks[di-len(dests)].last
					if dst == "" {
						script = append(script, "skip")
						continue
					}
				}
				script = append(script, fmt.Sprintf("%s->%s", s.m.name, dst))
				payload := mkPayload(step)
				f := w.m.send(s.m, dst)
				buf := append([]byte(nil), payload...)
				ua, _ := net.ResolveUDPAddr("udp", dst)
				n, err := s.conn.WriteTo(buf, ua)
				for i := range buf {
					buf[i] = 0xEE // the caller reuses its buffer at once
				}
				if err != nil || n != len(payload) {
					viol = &explore.Violation{Sig: "C01 write-failed", Msg: fmt.Sprintf("plan %v: WriteTo returned (%d, %v)", script, n, err)}
					return
				}
				zzvsched.WaitQuiet(time.Millisecond)
				if v := w.judge(step, s, dst, payload, f); v != nil {
					v.Msg = fmt.Sprintf("%s nat=%s, plan %v: %s", topo.name, nat, script, v.Msg)
					viol = v
					return
				}
			}
			// epilogue: every socket answers every source it has observed, from the address the
			// original was sent to (its own bound address); the model predicts each reply's fate
			step := steps
			for _, r := range w.socks {
				if r.m.remote != "" || r.m.lip == "0.0.0.0" {
					continue // a dialled socket answers only its peer; a wildcard socket's source may differ from the address written to
				}
				for _, src := range append([]string(nil), r.srcs...) {
					script = append(script, fmt.Sprintf("reply %s->%s", r.m.name, src))
					payload := mkPayload(step)
					f := w.m.send(r.m, src)
					ua, _ := net.ResolveUDPAddr("udp", src)
					if _, err := r.conn.WriteTo(append([]byte(nil), payload...), ua); err != nil {
						viol = &explore.Violation{Sig: "C01 write-failed", Msg: fmt.Sprintf("plan %v: WriteTo returned %v", script, err)}
						return
					}
					zzvsched.WaitQuiet(time.Millisecond)
					if v := w.judge(step, r, src, payload, f); v != nil {
						v.Msg = fmt.Sprintf("%s nat=%s, plan %v: %s", topo.name, nat, script, v.Msg)
						viol = v
						return
					}
					step++
				}
			}
			finished = true
		}
		check := func(ex *zzvsched.Exec) (string, *explore.Violation) {
			out := strings.Join(script, " ; ")
			if len(ex.Panics) > 0 {
				return out, &explore.Violation{Sig: "C01 panic", Msg: fmt.Sprintf("%s nat=%s, plan %v: panic: %s\n%s", topo.name, nat, script, ex.Panics[0].Value, ex.Panics[0].Stack)}
			}
			if viol != nil {
				return out, viol
			}
			if ex.HorizonHit {
				return out + " HORIZON", nil
			}
			if !finished {
				return out, &explore.Violation{Sig: "C01 blocked", Msg: fmt.Sprintf("%s nat=%s, plan %v: the sender blocked: %v", topo.name, nat, script, ex.Parked)}
			}
			for _, p := range ex.Parked {
				if !strings.HasPrefix(p.Name, "reader-") && !strings.HasPrefix(p.Name, "main.") {
					return out, &explore.Violation{Sig: "C01 stuck-thread", Msg: fmt.Sprintf("unexpected parked thread %+v", p)}
				}
			}
			return out, nil
		}
		return body, check
	}
	return sc
}

// c01concurrent: several LAN and WAN senders write to one WAN socket concurrently.
// c01closing: one socket of the receiving host is closed while datagrams for it and for a second, open
// socket of the same host are in flight.  Datagrams for the open socket must all arrive, in order, intact;
// the socket being closed receives an in-order duplicate-free part of its flow; Close returns; nothing
// is left blocked.
func c01closing(per, bound int, strict bool) *explore.Scenario {
	name := fmt.Sprintf("a socket is closed while traffic flows, 2 senders x%d", per)
	if strict {
		name += " [strict deviations]"
	}
	sc := &explore.Scenario{Name: name, Bound: bound}
	sc.Cfg.Horizon = 5 * time.Second
	sc.Cfg.Strict = strict
	sc.Cfg.YieldOnRelease = !strict
	sc.Make = func() (func(), func(*zzvsched.Exec) (string, *explore.Violation)) {
		var viol *explore.Violation
		var w *world
		var sink, victim *rsock
		done, closed := 0, false
		body := func() {
			w = newWorld()
			w.router("root", "1.2.3.0/24", "", nil, nil)
			w.host("W1", "root", "1.2.3.10")
			w.host("W2", "root", "1.2.3.20")
			sink = w.sock("W1", "", 7000, "")
			victim = w.sock("W1", "", 7001, "")
			senders := []*rsock{w.sock("W2", "", 7000, ""), w.sock("W2", "", 7001, "")}
			if err := w.routers["root"].Start(); err != nil {
				panic(err)
			}
			zzvsched.WaitQuiet(time.Millisecond)
			for i, s := range senders {
				i, s := i, s
				dst := &net.UDPAddr{IP: net.ParseIP("1.2.3.10"), Port: 7000 + i}
				zzvsched.GoNamed(fmt.Sprintf("sender%d", i), func() {
					for k := 0; k < per; k++ {
						if _, err := s.conn.WriteTo([]byte(fmt.Sprintf("s%d-%d", i, k)), dst); err != nil {
							viol = &explore.Violation{Sig: "C01 write-failed", Msg: name + ": " + err.Error()}
						}
					}
					done++
				})
			}
			zzvsched.GoNamed("closer", func() {
				_ = victim.conn.Close()
				closed = true
			})
			zzvsched.WaitQuiet(time.Millisecond)
		}
		check := func(ex *zzvsched.Exec) (string, *explore.Violation) {
			str := func(r *rsock) string {
				var o []string
				if r != nil {
					for _, it := range r.got {
						o = append(o, string(it.payload))
					}
				}
				return strings.Join(o, ",")
			}
			out := str(sink) + " | " + str(victim)
			if len(ex.Panics) > 0 {
				return out, &explore.Violation{Sig: "C01 panic", Msg: name + ": panic: " + ex.Panics[0].Value + "\n" + ex.Panics[0].Stack}
			}
			if viol != nil {
				return out, viol
			}
			if ex.HorizonHit {
				return out + " HORIZON", nil
			}
			if done != 2 || !closed {
				return out, &explore.Violation{Sig: "C01 blocked", Msg: fmt.Sprintf("%s: senders finished: %d of 2, Close returned: %v; blocked threads: %v", name, done, closed, ex.Parked)}
			}
			for _, pk := range ex.Parked {
				if pk.Op == "lock" || pk.Op == "rlock" {
					return out, &explore.Violation{Sig: "C01 blocked", Msg: fmt.Sprintf("%s: at quiescence a thread is still waiting for a lock: %v", name, ex.Parked)}
				}
			}
			want := ""
			for k := 0; k < per; k++ {
				if k > 0 {
					want += ","
				}
				want += fmt.Sprintf("s0-%d", k)
			}
			if str(sink) != want {
				return out, &explore.Violation{Sig: "C01 lost", Msg: fmt.Sprintf("%s: the open socket 1.2.3.10:7000 received [%s], written to it: [%s] (router started, unlimited queues, no filter)", name, str(sink), want)}
			}
			last := -1
			for _, it := range victim.got {
				var i, k int
				if _, err := fmt.Sscanf(string(it.payload), "s%d-%d", &i, &k); err != nil || i != 1 || k <= last || k >= per || it.src != "1.2.3.20:7001" {
					return out, &explore.Violation{Sig: "C01 misdelivered", Msg: fmt.Sprintf("%s: the socket that was being closed received [%s]: not an in-order duplicate-free part of its own flow", name, str(victim))}
				}
				last = k
			}
			return out, nil
		}
		return body, check
	}
	return sc
}

// c01rebind: a socket is closed from two threads at once while a third thread binds the same address again.
// If the new bind succeeded, the new socket is the open socket bound to that address: a datagram sent there
// afterwards reaches it, and nobody else can bind the address.
func c01rebind(bound int) *explore.Scenario {
	name := "a socket is closed twice concurrently while its address is bound again"
	sc := &explore.Scenario{Name: name, Bound: bound}
	sc.Cfg.Horizon = 5 * time.Second
	sc.Cfg.YieldOnRelease = true
	sc.Make = func() (func(), func(*zzvsched.Exec) (string, *explore.Violation)) {
		var viol *explore.Violation
		var got []string
		rebound, finished := false, false
		body := func() {
			w := newWorld()
			w.router("root", "1.2.3.0/24", "", nil, nil)
			w.host("W1", "root", "1.2.3.10")
			w.host("W2", "root", "1.2.3.20")
			victim := w.sock("W1", "", 7001, "")
			sender := w.sock("W2", "", 7000, "")
			if err := w.routers["root"].Start(); err != nil {
				panic(err)
			}
			zzvsched.WaitQuiet(time.Millisecond)
			addr := &net.UDPAddr{IP: net.ParseIP("1.2.3.10"), Port: 7001}
			var fresh net.PacketConn
			for i := 0; i < 2; i++ {
				zzvsched.GoNamed(fmt.Sprintf("closer%d", i), func() { _ = victim.conn.Close() })
			}
			zzvsched.GoNamed("binder", func() {
				if c, err := w.nets["W1"].ListenUDP("udp", addr); err == nil {
					fresh = c
					rebound = true
				}
			})
			zzvsched.WaitQuiet(time.Millisecond)
			if fresh != nil {
				zzvsched.GoNamed("reader-fresh", func() {
					for {
						buf := make([]byte, 64)
						n, _, err := fresh.ReadFrom(buf)
						if err != nil {
							return
						}
						got = append(got, string(buf[:n]))
					}
				})
				if c2, err := w.nets["W1"].ListenUDP("udp", addr); err == nil {
					viol = &explore.Violation{Sig: "C01 address-bound-twice", Msg: name + ": 1.2.3.10:7001 was bound again while the socket that re-bound it is open"}
					_ = c2.Close()
				}
				if _, err := sender.conn.WriteTo([]byte("hello"), addr); err != nil {
					viol = &explore.Violation{Sig: "C01 write-failed", Msg: name + ": " + err.Error()}
				}
				zzvsched.WaitQuiet(time.Millisecond)
			}
			finished = true
		}
		check := func(ex *zzvsched.Exec) (string, *explore.Violation) {
			out := fmt.Sprintf("rebound=%v got=%v", rebound, got)
			if len(ex.Panics) > 0 {
				return out, &explore.Violation{Sig: "C01 panic", Msg: name + ": panic: " + ex.Panics[0].Value + "\n" + ex.Panics[0].Stack}
			}
			if viol != nil {
				return out, viol
			}
			if ex.HorizonHit {
				return out + " HORIZON", nil
			}
			if !finished {
				return out, &explore.Violation{Sig: "C01 blocked", Msg: fmt.Sprintf("%s: blocked threads: %v", name, ex.Parked)}
			}
			if rebound && (len(got) != 1 || got[0] != "hello") {
				return out, &explore.Violation{Sig: "C01 lost", Msg: fmt.Sprintf("%s: the address was bound again by an open socket, but the datagram sent to it afterwards arrived as %v (router started, unlimited queues, no filter)", name, got)}
			}
			return out, nil
		}
		return body, check
	}
	return sc
}

// c01inboundBurst: replies enter a NATed LAN router from its parent back to back while a LAN-internal sender
// keeps that router busy: the replies must reach the original sender's socket in the order written, once each.
func c01inboundBurst(nat natSpec, bound int, strict bool) *explore.Scenario {
	name := fmt.Sprintf("replies enter the LAN (nat=%s) back to back while the LAN router is busy", nat)
	if strict {
		name += " [strict deviations]"
	}
	sc := &explore.Scenario{Name: name, Bound: bound}
	sc.Cfg.Horizon = 5 * time.Second
	sc.Cfg.Strict = strict
	sc.Cfg.RandMenu = func(n int64) []int64 { return []int64{0} }
	sc.Make = func() (func(), func(*zzvsched.Exec) (string, *explore.Violation)) {
		var viol *explore.Violation
		var a1 *rsock
		finished := false
		body := func() {
			w := newWorld()
			w.router("root", "1.2.3.0/24", "", nil, nil)
			w.router("lanA", "10.1.0.0/24", "root", &nat, nil)
			w.host("W1", "root", "1.2.3.10")
			w.host("A1", "lanA", "10.1.0.50")
			w.host("A2", "lanA", "10.1.0.51")
			sink := w.sock("W1", "", 7000, "")
			a1 = w.sock("A1", "", 6000, "")
			a2 := w.sock("A2", "", 6000, "")
			if err := w.routers["root"].Start(); err != nil {
				panic(err)
			}
			zzvsched.WaitQuiet(time.Millisecond)
			if _, err := a1.conn.WriteTo([]byte("hello"), &net.UDPAddr{IP: net.ParseIP("1.2.3.10"), Port: 7000}); err != nil {
				panic(err)
			}
			zzvsched.WaitQuiet(time.Millisecond)
			if len(sink.got) != 1 {
				viol = &explore.Violation{Sig: "C01 lost", Msg: name + ": the first datagram did not arrive"}
				return
			}
			src, _ := net.ResolveUDPAddr("udp", sink.got[0].src)
			zzvsched.GoNamed("replier", func() {
				for k := 0; k < 2; k++ {
					if _, err := sink.conn.WriteTo([]byte(fmt.Sprintf("r%d", k)), src); err != nil {
						viol = &explore.Violation{Sig: "C01 write-failed", Msg: name + ": " + err.Error()}
					}
				}
			})
			zzvsched.GoNamed("lan-sender", func() {
				for k := 0; k < 1; k++ {
					_, _ = a2.conn.WriteTo([]byte(fmt.Sprintf("x%d", k)), &net.UDPAddr{IP: net.ParseIP("10.1.0.50"), Port: 6000})
				}
			})
			zzvsched.WaitQuiet(time.Millisecond)
			finished = true
		}
		check := func(ex *zzvsched.Exec) (string, *explore.Violation) {
			var all, rs []string
			if a1 != nil {
				for _, it := range a1.got {
					all = append(all, string(it.payload))
					if it.payload[0] == 'r' {
						rs = append(rs, string(it.payload))
					}
				}
			}
			out := strings.Join(all, ",")
			if len(ex.Panics) > 0 {
				return out, &explore.Violation{Sig: "C01 panic", Msg: name + ": panic: " + ex.Panics[0].Value + "\n" + ex.Panics[0].Stack}
			}
			if viol != nil {
				return out, viol
			}
			if ex.HorizonHit {
				return out + " HORIZON", nil
			}
			if !finished {
				return out, &explore.Violation{Sig: "C01 blocked", Msg: fmt.Sprintf("%s: blocked threads: %v", name, ex.Parked)}
			}
			if strings.Join(rs, ",") != "r0,r1" {
				return out, &explore.Violation{Sig: "C01 order", Msg: fmt.Sprintf("%s: the replies r0, r1 written in this order to the observed source arrived at the original sender's socket as %v (everything it received: %v)", name, rs, all)}
			}
			return out, nil
		}
		return body, check
	}
	return sc
}

// c01loopback: several threads deliver into ONE socket at the same time without a common router goroutine
// in between: two sockets of the host write to it over loopback (the write hands the datagram to the
// destination socket in the writer's own thread) while a routed datagram from another host arrives through
// the root router.  Nothing may be lost, duplicated or reordered per sender.
func c01loopback(bound int, strict bool) *explore.Scenario {
	name := "two loopback writers and one routed sender deliver into one wildcard-bound socket"
	if strict {
		name += " [strict deviations]"
	}
	sc := &explore.Scenario{Name: name, Bound: bound}
	sc.Cfg.Horizon = 5 * time.Second
	sc.Cfg.Strict = strict
	sc.Cfg.RandMenu = func(n int64) []int64 { return []int64{0} }
	sc.Make = func() (func(), func(*zzvsched.Exec) (string, *explore.Violation)) {
		var viol *explore.Violation
		var sink *rsock
		finished := false
		body := func() {
			w := newWorld()
			w.router("root", "1.2.3.0/24", "", nil, nil)
			w.host("W1", "root", "1.2.3.10")
			w.host("W2", "root", "1.2.3.20")
			sink = w.sock("W1", "*", 7000, "")
			l1 := w.sock("W1", "127.0.0.1", 6001, "")
			l2 := w.sock("W1", "127.0.0.1", 6002, "")
			far := w.sock("W2", "", 6003, "")
			if err := w.routers["root"].Start(); err != nil {
				panic(err)
			}
			zzvsched.WaitQuiet(time.Millisecond)
			send := func(tag string, from *rsock, dst string, k int) {
				zzvsched.GoNamed("sender-"+tag, func() {
					for i := 0; i < k; i++ {
						if _, err := from.conn.WriteTo([]byte(fmt.Sprintf("%s%d", tag, i)), &net.UDPAddr{IP: net.ParseIP(dst), Port: 7000}); err != nil {
							viol = &explore.Violation{Sig: "C01 write-failed", Msg: name + ": " + err.Error()}
						}
					}
				})
			}
			send("a", l1, "127.0.0.1", 2)
			send("b", l2, "127.0.0.1", 2)
			send("c", far, "1.2.3.10", 1)
			zzvsched.WaitQuiet(time.Millisecond)
			finished = true
		}
		check := func(ex *zzvsched.Exec) (string, *explore.Violation) {
			var all []string
			per := map[byte][]string{}
			srcOf := map[byte]string{'a': "127.0.0.1:6001", 'b': "127.0.0.1:6002", 'c': "1.2.3.20:6003"}
			var bad string
			if sink != nil {
				for _, it := range sink.got {
					all = append(all, string(it.payload))
					if len(it.payload) != 2 || srcOf[it.payload[0]] == "" {
						bad = fmt.Sprintf("unknown payload %q", it.payload)
						continue
					}
					per[it.payload[0]] = append(per[it.payload[0]], string(it.payload))
					if it.src != srcOf[it.payload[0]] {
						bad = fmt.Sprintf("%q arrived with source %s, want %s", it.payload, it.src, srcOf[it.payload[0]])
					}
				}
			}
			out := strings.Join(all, ",")
			if len(ex.Panics) > 0 {
				return out, &explore.Violation{Sig: "C01 panic", Msg: name + ": panic: " + ex.Panics[0].Value + "\n" + ex.Panics[0].Stack}
			}
			if viol != nil {
				return out, viol
			}
			if ex.HorizonHit {
				return out + " HORIZON", nil
			}
			if !finished {
				return out, &explore.Violation{Sig: "C01 blocked", Msg: fmt.Sprintf("%s: blocked threads: %v", name, ex.Parked)}
			}
			if bad != "" {
				return out, &explore.Violation{Sig: "C01 corrupted", Msg: name + ": " + bad}
			}
			for _, tw := range []string{"a:a0,a1", "b:b0,b1", "c:c0"} {
				tag, want := tw[0], tw[2:]
				if got := strings.Join(per[tag], ","); got != want {
					return out, &explore.Violation{Sig: "C01 lost-or-reordered", Msg: fmt.Sprintf("%s: sender %c wrote %s; the socket received %q from it (everything received: %v)", name, tag, want, got, all)}
				}
			}
			return out, nil
		}
		return body, check
	}
	return sc
}

func c01concurrent(nat natSpec, nSenders, per, bound int, strict bool, queue int, delay ...time.Duration) *explore.Scenario {
	name := fmt.Sprintf("concurrent nat=%s senders=%d x%d", nat, nSenders, per)
	if queue > 0 {
		name += fmt.Sprintf(" queue=%d", queue)
	}
	var minDelay time.Duration
	if len(delay) > 0 {
		minDelay = delay[0]
		name += fmt.Sprintf(" router-delay=%v", minDelay)
	}
	if strict {
		name += " [strict deviations]"
	}
	sc := &explore.Scenario{Name: name, Bound: bound}
	sc.Cfg.Horizon = 5 * time.Second
	sc.Cfg.Strict = strict
	sc.Cfg.RandMenu = func(n int64) []int64 { return []int64{0} }
	sc.Make = func() (func(), func(*zzvsched.Exec) (string, *explore.Violation)) {
		var viol *explore.Violation
		var w *world
		var sink *rsock
		var senders []*rsock
		phase2 := false
		done := 0
		body := func() {
			w = newWorld()
			w.queueSize = queue
			w.minDelay = minDelay
			w.router("root", "1.2.3.0/24", "", nil, nil)
			var st []string
			if nat.oneToOne {
				st = []string{"1.2.3.30/10.1.0.50", "1.2.3.31/10.1.0.51"}
			}
			w.router("lanA", "10.1.0.0/24", "root", &nat, st)
			w.host("W1", "root", "1.2.3.10")
			w.host("W2", "root", "1.2.3.20")
			w.host("A1", "lanA", "10.1.0.50")
			w.host("A2", "lanA", "10.1.0.51")
			sink = w.sock("W1", "", 7000, "")
			senders = []*rsock{w.sock("A1", "", 6000, ""), w.sock("A2", "*", 6000, ""), w.sock("W2", "", 7000, "")}[:nSenders]
			if err := w.routers["root"].Start(); err != nil {
				panic(err)
			}
			zzvsched.WaitQuiet(time.Millisecond + 4*minDelay)
			dst := &net.UDPAddr{IP: net.ParseIP("1.2.3.10"), Port: 7000}
			for i, s := range senders {
				i, s := i, s
				zzvsched.GoNamed(fmt.Sprintf("sender%d", i), func() {
					for k := 0; k < per; k++ {
						p := []byte(fmt.Sprintf("s%d-%d-%s", i, k, strings.Repeat("x", 40*k)))
						buf := append([]byte(nil), p...)
						if _, err := s.conn.WriteTo(buf, dst); err != nil {
							viol = &explore.Violation{Sig: "C01 write-failed", Msg: name + ": " + err.Error()}
						}
						for j := range buf {
							buf[j] = '!'
						}
					}
					done++
				})
			}
			zzvsched.WaitQuiet(time.Millisecond + 4*minDelay)
			// everything written must have arrived by now: later traffic (the replies below) must not be
			// what pushes a stranded datagram through
			if done == nSenders && len(sink.got) != nSenders*per && (queue == 0 || nSenders*per < queue) && viol == nil {
				var order []string
				for _, it := range sink.got {
					order = append(order, string(it.payload[:4]))
				}
				viol = &explore.Violation{Sig: "C01 lost", Msg: fmt.Sprintf("%s: %d datagrams were written and the network is quiescent, but only %d arrived (%v) although every queue on the path is below capacity", name, nSenders*per, len(sink.got), order)}
				return
			}
			// phase 2: reply to every observed source; each reply must reach the original sender's socket
			phase2 = true
			for _, it := range append([]recvItem(nil), sink.got...) {
				var idx int
				fmt.Sscanf(string(it.payload), "s%d-", &idx)
				ua, _ := net.ResolveUDPAddr("udp", it.src)
				reply := []byte("re:" + string(it.payload))
				before := len(senders[idx].got)
				if _, err := sink.conn.WriteTo(reply, ua); err != nil {
					viol = &explore.Violation{Sig: "C01 write-failed", Msg: name + ": reply: " + err.Error()}
					return
				}
				zzvsched.WaitQuiet(time.Millisecond + 4*minDelay)
				if viol != nil {
					return
				}
				g := senders[idx].got
				if len(g) != before+1 || !bytes.Equal(g[len(g)-1].payload, reply) || g[len(g)-1].src != "1.2.3.10:7000" {
					viol = &explore.Violation{Sig: "C01 reply-not-delivered", Msg: fmt.Sprintf("%s: a reply sent from 1.2.3.10:7000 to the observed source %s of %q did not reach the original sender's socket %s (it now holds %d datagrams)", name, it.src, it.payload, senders[idx].m.name, len(g))}
					return
				}
				for j, o := range senders {
					if j != idx && len(o.got) > 0 && bytes.Equal(o.got[len(o.got)-1].payload, reply) {
						viol = &explore.Violation{Sig: "C01 reply-misdelivered", Msg: fmt.Sprintf("%s: the reply to %s also reached %s", name, it.src, o.m.name)}
						return
					}
				}
			}
		}
		check := func(ex *zzvsched.Exec) (string, *explore.Violation) {
			var order []string
			if sink != nil {
				for _, it := range sink.got {
					order = append(order, string(it.payload[:4]))
				}
			}
			out := strings.Join(order, ",")
			if len(ex.Panics) > 0 {
				return out, &explore.Violation{Sig: "C01 panic", Msg: name + ": panic: " + ex.Panics[0].Value + "\n" + ex.Panics[0].Stack}
			}
			if viol != nil {
				return out, viol
			}
			if ex.HorizonHit {
				return out + " HORIZON", nil
			}
			if viol == nil && (done != nSenders || !phase2) {
				return out, &explore.Violation{Sig: "C01 blocked", Msg: fmt.Sprintf("%s: a sender blocked: %v", name, ex.Parked)}
			}
			// per-flow order, nothing lost (unbounded queues) or only beyond the queue bound, nothing duplicated
			next := make([]int, nSenders)
			srcOf := map[int]string{}
			seen := map[string]bool{}
			for _, it := range sink.got {
				var i, k int
				if _, err := fmt.Sscanf(string(it.payload), "s%d-%d-", &i, &k); err != nil || i >= nSenders {
					return out, &explore.Violation{Sig: "C01 payload-altered", Msg: fmt.Sprintf("%s: unknown payload %q", name, it.payload)}
				}
				want := fmt.Sprintf("s%d-%d-%s", i, k, strings.Repeat("x", 40*k))
				if string(it.payload) != want {
					return out, &explore.Violation{Sig: "C01 payload-altered", Msg: fmt.Sprintf("%s: payload %q arrived as %q", name, want, it.payload)}
				}
				if seen[want] {
					return out, &explore.Violation{Sig: "C01 duplicate", Msg: fmt.Sprintf("%s: %q arrived twice", name, want)}
				}
				seen[want] = true
				if k < next[i] {
					return out, &explore.Violation{Sig: "C01 reordered", Msg: fmt.Sprintf("%s: datagrams of sender %d arrived out of order: %v", name, i, order)}
				}
				next[i] = k + 1
				if s, ok := srcOf[i]; ok && s != it.src {
					return out, &explore.Violation{Sig: "C01 wrong-source", Msg: fmt.Sprintf("%s: two datagrams of sender %d to the same destination show different sources %s and %s", name, i, s, it.src)}
				}
				srcOf[i] = it.src
			}
			for i := 0; i < nSenders; i++ {
				for j := 0; j < i; j++ {
					if srcOf[i] != "" && srcOf[i] == srcOf[j] {
						return out, &explore.Violation{Sig: "C01 wrong-source", Msg: fmt.Sprintf("%s: senders %d and %d show the same source %s", name, i, j, srcOf[i])}
					}
				}
			}
			if len(sink.got) != nSenders*per && (queue == 0 || nSenders*per < queue) {
				return out, &explore.Violation{Sig: "C01 lost", Msg: fmt.Sprintf("%s: %d datagrams were written, %d arrived (%v) although every queue on the path is below capacity", name, nSenders*per, len(sink.got), order)}
			}
			return out, nil
		}
		return body, check
	}
	return sc
}

func init() {
	_ = strconv.Itoa
	register(&Check{ID: "C01",
		Scenarios: func(tier string) []*explore.Scenario {
			var out []*explore.Scenario
			nats := c01nats()
			if tier == "quick" {
				out = append(out, c01plan(c01topos[0], nats[0], 2, 0, 0))
				for _, n := range nats {
					out = append(out, c01plan(c01topos[1], n, 2, 4, 0))
				}
				for _, n := range []natSpec{nats[0], nats[4], nats[8], nats[9]} {
					out = append(out, c01plan(c01topos[2], n, 2, 0, 0), c01plan(c01topos[3], n, 2, 0, 0))
				}
				out = append(out, c01plan(c01topos[1], nats[2], 3, 3, 9), c01plan(c01topos[3], nats[0], 3, 3, 0))
				for _, n := range []natSpec{nats[0], nats[8], nats[9]} {
					out = append(out, c01concurrent(n, 2, 2, 2, true, 0))
				}
				out = append(out, c01concurrent(nats[2], 3, 2, 1, true, 0)) // three senders: bound 1 in quick (bound 3 in thorough)
				// bounded router queues: no loss while the number of datagrams stays below the bound,
				// and with a bound of 1 whatever arrives is still intact, in order, once
				out = append(out, c01concurrent(nats[0], 2, 2, 2, true, 1)) // (queue bound 5: thorough)
				out = append(out, c01closing(2, 2, true), c01closing(1, 1, false), c01rebind(2))
				// routers that delay: nothing may be left behind in a queue
				out = append(out, c01concurrent(nats[0], 2, 2, 2, true, 0, time.Millisecond))
				out = append(out, c01inboundBurst(nats[0], 3, true))
				out = append(out, c01loopback(2, true))
				return out
			}
			out = append(out, c01plan(c01topos[0], nats[0], 3, 0, 0))
			for _, n := range nats {
				out = append(out, c01plan(c01topos[1], n, 2, 0, 0), c01plan(c01topos[2], n, 2, 0, 0), c01plan(c01topos[3], n, 2, 0, 0))
			}
			for _, n := range []natSpec{nats[0], nats[2], nats[4], nats[8], nats[9]} {
				out = append(out, c01plan(c01topos[1], n, 3, 0, 0), c01plan(c01topos[3], n, 3, 0, 0))
			}
			for _, n := range []natSpec{nats[0], nats[2], nats[5], nats[8], nats[9]} {
				out = append(out, c01concurrent(n, 2, 2, 3, true, 0), c01concurrent(n, 3, 2, 3, true, 0))
			}
			out = append(out, c01concurrent(nats[0], 2, 2, 2, true, 5), c01concurrent(nats[0], 3, 2, 3, true, 7), c01concurrent(nats[4], 2, 2, 3, true, 1), c01concurrent(nats[0], 3, 2, 2, true, 2))
			for _, n := range []natSpec{nats[0], nats[9]} {
				out = append(out, c01concurrent(n, 2, 1, 1, false, 0))
			}
			out = append(out, c01closing(2, 3, true), c01closing(2, 1, false), c01closing(1, 2, false), c01rebind(3))
			out = append(out, c01concurrent(nats[0], 2, 2, 3, true, 0, time.Millisecond), c01concurrent(nats[9], 3, 2, 2, true, 0, 20*time.Millisecond))
			out = append(out, c01inboundBurst(nats[0], 3, true), c01inboundBurst(nats[4], 2, true))
			out = append(out, c01loopback(3, true), c01loopback(1, false))
			return out
		},
		Rule:        "topologies {root only; root+LAN; root+2 sibling LANs; root+LAN+nested LAN} with static / automatic / two-address hosts and sockets bound to a specific address, the wildcard, port 0 or dialled, x NAT {9 mapping/filtering combinations, 1:1} x every traffic plan of 2-3 sends over (sending socket) x (every socket address on every network, unbound port, unroutable IPs, loopback, the LAN's own external address, 'the source last observed by socket k'), payload sizes {1500,0,1}, sender buffer overwritten after WriteTo; after each send the system runs to quiescence and every socket's new receptions are compared with the routing/NAT model. Plus 2-3 concurrent senders x 2 datagrams through one NAT to one socket under every schedule within the deviation bound, followed by a reply to every observed source. Plus: one socket of the receiving host is closed while datagrams for it and for a second open socket of that host are in flight (the open socket must receive everything; Close returns; no thread stays blocked on a lock); replies entering a NATed LAN back to back while a LAN-internal sender keeps its router busy (order at the original sender's socket); a socket closed from two threads at once while a third binds its address again (the new socket then receives what is sent there and the address cannot be bound a second time); two loopback writers (delivery in the writer's own thread) and one routed sender delivering into one wildcard-bound socket at once (nothing lost, duplicated or reordered per sender).",
		Assumptions: []string{"external ports are 'some fresh port': bound to the value first observed, then required to be stable and unique", "no time passes (mapping lifetime 30 s); queues unbounded unless stated"}})
}
