// Package explore is the stateless, deviation-bounded depth-first search over
// the choice points recorded by zzvsched (thread schedule, clock transitions,
// select/rand/harness data choices).
package explore

import (
	"fmt"
	"hash/fnv"
	"sort"
	"time"

	"github.com/pion/transport/v3/zzvsched"
)

// Violation is a property violation found in one execution.
type Violation struct {
	Msg string // human readable
	Sig string // stable signature used to match known findings
}

// Scenario is one closed harness.
type Scenario struct {
	Name  string
	Cfg   zzvsched.Config
	Bound int // deviation bound; <0 = unbounded
	// Make creates the per-execution state and returns the main-thread body and
	// the oracle, which reports an outcome signature and possibly a violation.
	Make func() (body func(), check func(*zzvsched.Exec) (string, *Violation))
	NoFP bool // disable the happens-before state cache
	// Final, if set, judges the SET of executions (outcome signature -> count) after the scenario has been
	// explored completely by one worker; for properties about what must be reachable, not about one run.
	Final func(outcomes map[string]int64) *Violation
}

// Found is a violating execution.
type Found struct {
	Scenario string
	Prefix   []int
	V        *Violation
	Trace    []string
	SetLevel bool // found by Scenario.Final: a judgement about the set of executions, replayed by re-exploring the scenario
}

// Stats is what an exploration covered.
type Stats struct {
	Execs       int64
	Transitions int64
	States      int64 // distinct HB fingerprints at choice points (+1 per execution end)
	Outcomes    map[string]int64
	HorizonHits int64
	Truncated   bool
	MaxPoints   int
	MaxThreads  int
	Conflicting int64 // executions in which at least two threads touched a common object
	Pruned      int64
	Sample      []string
}

// Options controls one exploration.
type Options struct {
	Shard, Shards int
	Deadline      time.Time
	MaxExecs      int64
	StopAtFirst   bool
	MaxFound      int
}

type item struct {
	prefix []int
	depth  int
}

// Work is split between worker processes by sub-trees: items above the split depth are run by
// every worker (only to generate their children), items at the split depth belong to the worker
// their prefix hashes to, deeper items to whoever owns their ancestor.  The split depth is 1 when
// the root execution already has plenty of alternatives, else 2 (decided identically by all workers).

func hashPrefix(p []int) uint32 {
	h := fnv.New32a()
	var b [4]byte
	for _, v := range p {
		b[0], b[1], b[2], b[3] = byte(v), byte(v>>8), byte(v>>16), byte(v>>24)
		h.Write(b[:])
	}
	return h.Sum32()
}

// RunOnce executes one schedule of a scenario.
func RunOnce(sc *Scenario, prefix []int, trace bool) (*zzvsched.Exec, string, *Violation) {
	body, check := sc.Make() // may install per-execution hooks in sc.Cfg
	cfg := sc.Cfg
	cfg.Prefix = prefix
	cfg.Trace = trace
	cfg.FP = !sc.NoFP
	ex := zzvsched.Run(cfg, body)
	out, v := check(ex)
	return ex, out, v
}

// Explore runs the bounded DFS.
func Explore(sc *Scenario, opt Options) (*Stats, []*Found) {
	st := &Stats{Outcomes: map[string]int64{}}
	var found []*Found
	if opt.Shards <= 0 {
		opt.Shards = 1
	}
	cache := map[uint64]int8{}
	seen := map[uint64]struct{}{}
	stack := []item{{}}
	splitDepth := 2
	sigs := map[string]bool{}
	rootKids := 0
	for len(stack) > 0 {
		it := stack[len(stack)-1]
		stack = stack[:len(stack)-1]
		mine := opt.Shards == 1 || int(hashPrefix(it.prefix))%opt.Shards == opt.Shard
		if it.depth == splitDepth && !mine {
			continue
		}
		if (!opt.Deadline.IsZero() && time.Now().After(opt.Deadline)) || (opt.MaxExecs > 0 && st.Execs >= opt.MaxExecs) {
			st.Truncated = true
			break
		}
		ex, out, v := RunOnce(sc, it.prefix, false)
		count := mine || it.depth > splitDepth
		if count {
			st.Execs++
			st.Transitions += int64(ex.Steps)
			st.Outcomes[out]++
			if ex.HorizonHit {
				st.HorizonHits++
			}
			if len(ex.Points) > st.MaxPoints {
				st.MaxPoints = len(ex.Points)
			}
			if ex.Threads > st.MaxThreads {
				st.MaxThreads = ex.Threads
			}
			if ex.Conflicts > 0 {
				st.Conflicting++
			}
			if len(st.Sample) < 3 && (len(st.Sample) == 0 || st.Execs%97 == 0) {
				st.Sample = append(st.Sample, fmt.Sprintf("choices=%v outcome=%s", choices(ex), out))
			}
			if v != nil && !sigs[v.Sig+"|"+v.Msg] {
				sigs[v.Sig+"|"+v.Msg] = true
				f := &Found{Scenario: sc.Name, Prefix: choices(ex), V: v}
				found = append(found, f)
				if opt.StopAtFirst || (opt.MaxFound > 0 && len(found) >= opt.MaxFound) {
					return st, found
				}
			}
		}
		// expand alternatives
		cost := 0
		for i := 0; i < len(ex.Points); i++ {
			p := &ex.Points[i]
			if i >= len(it.prefix) {
				rem := 127
				if sc.Bound >= 0 {
					rem = sc.Bound - cost
				}
				if !p.Data && p.FP != 0 && !sc.NoFP {
					key := p.FP ^ uint64(p.Cur+2)*0x9E3779B97F4A7C15
					if count {
						if _, ok := seen[key]; !ok {
							seen[key] = struct{}{}
							st.States++
						}
					}
					if it.depth >= splitDepth {
						if old, ok := cache[key]; ok && int(old) >= rem {
							st.Pruned++
							break
						}
						cache[key] = int8(rem)
					}
				}
				for alt := 1; alt < p.N; alt++ {
					c := 0
					if it.depth == 0 {
						rootKids++
					}
					if p.Costs != nil {
						c = int(p.Costs[alt])
					}
					if sc.Bound >= 0 && cost+c > sc.Bound {
						continue
					}
					np := make([]int, i+1)
					for j := 0; j < i; j++ {
						np[j] = ex.Points[j].Chosen
					}
					np[i] = alt
					stack = append(stack, item{prefix: np, depth: it.depth + 1})
				}
			}
			if p.Costs != nil {
				cost += int(p.Costs[p.Chosen])
			}
		}
		if count {
			st.States++ // terminal state
		}
		if it.depth == 0 && rootKids >= 6*opt.Shards {
			splitDepth = 1
		}
	}
	if sc.Final != nil && opt.Shards == 1 && !st.Truncated && len(found) == 0 {
		if v := sc.Final(st.Outcomes); v != nil {
			found = append(found, &Found{Scenario: sc.Name, V: v, SetLevel: true})
		}
	}
	return st, found
}

func choices(ex *zzvsched.Exec) []int {
	out := make([]int, len(ex.Points))
	for i := range ex.Points {
		out[i] = ex.Points[i].Chosen
	}
	// trim trailing zeros (defaults)
	n := len(out)
	for n > 0 && out[n-1] == 0 {
		n--
	}
	return out[:n]
}

// Merge adds b into a.
func (a *Stats) Merge(b *Stats) {
	a.Execs += b.Execs
	a.Transitions += b.Transitions
	a.States += b.States
	a.HorizonHits += b.HorizonHits
	a.Conflicting += b.Conflicting
	a.Pruned += b.Pruned
	a.Truncated = a.Truncated || b.Truncated
	if b.MaxPoints > a.MaxPoints {
		a.MaxPoints = b.MaxPoints
	}
	if b.MaxThreads > a.MaxThreads {
		a.MaxThreads = b.MaxThreads
	}
	if a.Outcomes == nil {
		a.Outcomes = map[string]int64{}
	}
	for k, v := range b.Outcomes {
		a.Outcomes[k] += v
	}
	for _, s := range b.Sample {
		if len(a.Sample) < 6 {
			a.Sample = append(a.Sample, s)
		}
	}
}

// OutcomeList returns the outcomes sorted by name.
func (a *Stats) OutcomeList() []string {
	var ks []string
	for k := range a.Outcomes {
		ks = append(ks, k)
	}
	sort.Strings(ks)
	return ks
}
