package main

import (
	"fmt"
	"net"
	"strings"
	"time"

	"github.com/pion/logging"
	"github.com/pion/transport/v3/vnet"
	"github.com/pion/transport/v3/zzvsched"
	"verifharness/explore"
)

// C14 — configured delays are lower bounds and never reorder, drop, duplicate or crash.

func c14filter(delay time.Duration, n, bound int, go123 bool, slow ...time.Duration) *explore.Scenario {
	return c14filterOpt(delay, n, bound, go123, false, slow...)
}

// c14filterOpt: stamped = every arriving chunk already carries a router-queue timestamp that lies further back
// than the filter's delay (it waited in a delaying router before it reached the filter); the filter's delay
// counts from the arrival at the filter all the same.
func c14filterOpt(delay time.Duration, n, bound int, go123, stamped bool, slow ...time.Duration) *explore.Scenario {
	name := fmt.Sprintf("delayfilter d=%v n=%d", delay, n)
	if go123 {
		name += " (go1.23 timers)"
	}
	if stamped {
		name += " chunks carry an older queue timestamp"
	}
	var slowBy time.Duration
	if len(slow) > 0 {
		slowBy = slow[0]
		name += fmt.Sprintf(" slow-nic=%v", slowBy)
	}
	sc := &explore.Scenario{Name: name, Bound: bound}
	sc.Cfg.Horizon = 30 * time.Second
	sc.Cfg.Go123 = go123
	gaps := []time.Duration{0, delay / 2, delay, 2 * delay}
	if delay == 0 {
		gaps = []time.Duration{0, time.Microsecond}
	}
	sc.Make = func() (func(), func(*zzvsched.Exec) (string, *explore.Violation)) {
		rec := vnet.ZZNewRecNIC()
		rec.SlowBy = slowBy
		var sentAt []time.Duration
		var script []string
		pushed := 0
		body := func() {
			f, err := vnet.NewDelayFilter(rec, delay)
			if err != nil {
				panic(err)
			}
			ctx, _ := zzvsched.WithCancel()
			zzvsched.GoNamed("run", func() { f.Run(ctx) })
			for i := 0; i < n; i++ {
				if i > 0 {
					g := gaps[zzvsched.Choose(len(gaps))]
					script = append(script, g.String())
					if g > 0 {
						zzvsched.Sleep(g)
					}
				}
				if stamped {
					vnet.ZZStamp = zzvsched.Now().Add(-2*delay - time.Millisecond)
				}
				ch := vnet.ZZUDPChunk("10.0.0.1:1", "10.0.0.2:2", []byte(fmt.Sprintf("p%d", i)))
				vnet.ZZStamp = time.Time{}
				sentAt = append(sentAt, zzvsched.Elapsed())
				vnet.ZZPush(f, ch)
				pushed++
			}
		}
		check := func(ex *zzvsched.Exec) (string, *explore.Violation) {
			var got []string
			for _, g := range rec.Got {
				got = append(got, string(g.Payload))
			}
			out := fmt.Sprintf("gaps=%v got=%v", script, got)
			pre := fmt.Sprintf("delay filter %v, arrival gaps %v: ", delay, script)
			for _, p := range ex.Panics {
				if strings.HasPrefix(p.Thread, "run") || p.Thread == "main" {
					return out, &explore.Violation{Sig: "C14 panic delayfilter", Msg: pre + "the forwarding loop panicked: " + p.Value + "\n" + p.Stack}
				}
			}
			if ex.HorizonHit {
				return out + " HORIZON", nil
			}
			for i, g := range rec.Got {
				want := fmt.Sprintf("p%d", i)
				if string(g.Payload) != want {
					return out, &explore.Violation{Sig: "C14 order-or-duplicate delayfilter", Msg: pre + fmt.Sprintf("forwarded sequence %v is not the arrival order", got)}
				}
				if g.Src != "10.0.0.1:1" || g.Dst != "10.0.0.2:2" {
					return out, &explore.Violation{Sig: "C14 modified delayfilter", Msg: pre + "addresses changed"}
				}
				if i < len(sentAt) && g.At < sentAt[i]+delay {
					return out, &explore.Violation{Sig: "C14 early delayfilter", Msg: pre + fmt.Sprintf("datagram %d arrived at %v and was forwarded at %v, sooner than the delay", i, sentAt[i], g.At)}
				}
			}
			if pushed < n {
				return out, &explore.Violation{Sig: "C14 arrival-blocked delayfilter", Msg: pre + fmt.Sprintf("the arrival path blocked for good after %d datagrams: %v", pushed, ex.Parked)}
			}
			if len(rec.Got) != n {
				return out, &explore.Violation{Sig: "C14 not-forwarded delayfilter", Msg: pre + fmt.Sprintf("%d of %d datagrams were never forwarded although the filter is running (end of execution at %v)", n-len(rec.Got), n, ex.EndClock)}
			}
			return out, nil
		}
		return body, check
	}
	return sc
}

// c14filterStop: the filter's Run loop is stopped (context cancelled) while datagrams are still waiting in it,
// and optionally started again.  Whatever is forwarded - before the stop, by the stop, or after the restart -
// leaves no sooner than the delay after its arrival, in arrival order, once; after a restart everything is
// eventually forwarded (while the filter is stopped nothing is required).
func c14filterStop(delay time.Duration, n, bound int) *explore.Scenario {
	name := fmt.Sprintf("delayfilter d=%v n=%d, Run cancelled with datagrams waiting, optionally run again", delay, n)
	sc := &explore.Scenario{Name: name, Bound: bound}
	sc.Cfg.Horizon = 30 * time.Second
	gaps := []time.Duration{0, delay / 2}
	stops := []time.Duration{0, delay / 2, delay}
	sc.Make = func() (func(), func(*zzvsched.Exec) (string, *explore.Violation)) {
		rec := vnet.ZZNewRecNIC()
		var sentAt []time.Duration
		var script []string
		pushed := 0
		restarted, finished := false, false
		body := func() {
			f, err := vnet.NewDelayFilter(rec, delay)
			if err != nil {
				panic(err)
			}
			ctx, cancel := zzvsched.WithCancel()
			zzvsched.GoNamed("run", func() { f.Run(ctx) })
			for i := 0; i < n; i++ {
				if i > 0 {
					g := gaps[zzvsched.Choose(len(gaps))]
					script = append(script, g.String())
					if g > 0 {
						zzvsched.Sleep(g)
					}
				}
				sentAt = append(sentAt, zzvsched.Elapsed())
				vnet.ZZPush(f, vnet.ZZUDPChunk("10.0.0.1:1", "10.0.0.2:2", []byte(fmt.Sprintf("p%d", i))))
				pushed++
			}
			g := stops[zzvsched.Choose(len(stops))]
			script = append(script, "stop after "+g.String())
			if g > 0 {
				zzvsched.Sleep(g)
			}
			cancel()
			zzvsched.WaitIdle() // the loop has seen the cancellation and returned
			if zzvsched.Choose(2) == 1 {
				script = append(script, "run again")
				restarted = true
				ctx2, _ := zzvsched.WithCancel()
				zzvsched.GoNamed("run2", func() { f.Run(ctx2) })
			}
			finished = true
		}
		check := func(ex *zzvsched.Exec) (string, *explore.Violation) {
			var got []string
			for _, g := range rec.Got {
				got = append(got, string(g.Payload))
			}
			out := fmt.Sprintf("%v got=%v", script, got)
			pre := fmt.Sprintf("delay filter %v, %v: ", delay, script)
			for _, p := range ex.Panics {
				return out, &explore.Violation{Sig: "C14 panic delayfilter", Msg: pre + "panic: " + p.Value + "\n" + p.Stack}
			}
			if ex.HorizonHit {
				return out + " HORIZON", nil
			}
			for i, g := range rec.Got {
				want := fmt.Sprintf("p%d", i)
				if string(g.Payload) != want {
					return out, &explore.Violation{Sig: "C14 order-or-duplicate delayfilter", Msg: pre + fmt.Sprintf("forwarded sequence %v is not the arrival order", got)}
				}
				if i < len(sentAt) && g.At < sentAt[i]+delay {
					return out, &explore.Violation{Sig: "C14 early delayfilter", Msg: pre + fmt.Sprintf("datagram %d arrived at %v and was forwarded at %v, sooner than the delay", i, sentAt[i], g.At)}
				}
			}
			if !finished {
				return out, &explore.Violation{Sig: "C14 arrival-blocked delayfilter", Msg: pre + fmt.Sprintf("the script blocked for good after %d datagrams: %v", pushed, ex.Parked)}
			}
			if restarted && len(rec.Got) != n {
				return out, &explore.Violation{Sig: "C14 not-forwarded delayfilter", Msg: pre + fmt.Sprintf("%d of %d datagrams were never forwarded although the filter is running again (end of execution at %v)", n-len(rec.Got), n, ex.EndClock)}
			}
			return out, nil
		}
		return body, check
	}
	return sc
}

// c14filterConc: several arrival paths push into one delay filter at the same time (a router with
// several senders does exactly this).  Arrival order is only defined between datagrams whose pushes
// do not overlap: a push that returned before another began is earlier.
func c14filterConc(delay time.Duration, threads, per, bound int) *explore.Scenario {
	sc := &explore.Scenario{Name: fmt.Sprintf("delayfilter d=%v, %d concurrent arrival paths x %d", delay, threads, per), Bound: bound}
	sc.Cfg.Horizon = 30 * time.Second
	sc.Make = func() (func(), func(*zzvsched.Exec) (string, *explore.Violation)) {
		rec := vnet.ZZNewRecNIC()
		type arr struct{ before, after time.Duration }
		arrivals := map[string]*arr{}
		pushed := 0
		body := func() {
			f, err := vnet.NewDelayFilter(rec, delay)
			if err != nil {
				panic(err)
			}
			ctx, _ := zzvsched.WithCancel()
			zzvsched.GoNamed("run", func() { f.Run(ctx) })
			for t := 0; t < threads; t++ {
				t := t
				zzvsched.GoNamed(fmt.Sprintf("arrive%d", t), func() {
					for i := 0; i < per; i++ {
						tag := fmt.Sprintf("t%dp%d", t, i)
						a := &arr{before: zzvsched.Elapsed()}
						arrivals[tag] = a
						vnet.ZZPush(f, vnet.ZZUDPChunk("10.0.0.1:1", "10.0.0.2:2", []byte(tag)))
						a.after = zzvsched.Elapsed()
						pushed++
					}
				})
			}
		}
		check := func(ex *zzvsched.Exec) (string, *explore.Violation) {
			var got []string
			for _, g := range rec.Got {
				got = append(got, string(g.Payload))
			}
			out := fmt.Sprintf("got=%v", got)
			pre := fmt.Sprintf("delay filter %v, %d concurrent arrival paths: ", delay, threads)
			for _, p := range ex.Panics {
				return out, &explore.Violation{Sig: "C14 panic delayfilter", Msg: pre + "panic in " + p.Thread + ": " + p.Value + "\n" + p.Stack}
			}
			if ex.HorizonHit {
				return out + " HORIZON", nil
			}
			seen := map[string]int{}
			for i, g := range rec.Got {
				tag := string(g.Payload)
				a := arrivals[tag]
				if a == nil {
					return out, &explore.Violation{Sig: "C14 modified delayfilter", Msg: pre + fmt.Sprintf("forwarded %q, which never arrived", tag)}
				}
				seen[tag]++
				if seen[tag] > 1 {
					return out, &explore.Violation{Sig: "C14 order-or-duplicate delayfilter", Msg: pre + fmt.Sprintf("%q forwarded twice: %v", tag, got)}
				}
				if g.At < a.before+delay {
					return out, &explore.Violation{Sig: "C14 early delayfilter", Msg: pre + fmt.Sprintf("%q arrived no earlier than %v and was forwarded at %v", tag, a.before, g.At)}
				}
				for _, h := range rec.Got[:i] {
					b := arrivals[string(h.Payload)]
					if b != nil && a.after != 0 && a.after < b.before {
						return out, &explore.Violation{Sig: "C14 order-or-duplicate delayfilter", Msg: pre + fmt.Sprintf("%q had arrived (push returned at %v) before %q began to arrive (%v), yet left after it: %v", tag, a.after, string(h.Payload), b.before, got)}
					}
				}
			}
			if pushed < threads*per {
				return out, &explore.Violation{Sig: "C14 arrival-blocked delayfilter", Msg: pre + fmt.Sprintf("an arrival path blocked for good: %v", ex.Parked)}
			}
			if len(rec.Got) != threads*per {
				return out, &explore.Violation{Sig: "C14 not-forwarded delayfilter", Msg: pre + fmt.Sprintf("%d of %d datagrams were never forwarded although the filter is running (end of execution at %v): %v", threads*per-len(rec.Got), threads*per, ex.EndClock, got)}
			}
			return out, nil
		}
		return body, check
	}
	return sc
}

func c14router(minDelay, maxJitter time.Duration, n, bound int, slow ...time.Duration) *explore.Scenario {
	sc := &explore.Scenario{Name: fmt.Sprintf("router minDelay=%v jitter=%v n=%d", minDelay, maxJitter, n), Bound: bound}
	var slowBy time.Duration
	if len(slow) > 0 {
		slowBy = slow[0]
		sc.Name += fmt.Sprintf(" slow-nic=%v", slowBy)
	}
	sc.Cfg.Horizon = 30 * time.Second
	sc.Cfg.RandMenu = func(k int64) []int64 {
		if k <= 1 {
			return []int64{0}
		}
		return []int64{0, k - 1}
	}
	gaps := []time.Duration{0, minDelay / 2, minDelay + time.Microsecond}
	if minDelay == 0 {
		gaps = []time.Duration{0, time.Microsecond}
	}
	sc.Make = func() (func(), func(*zzvsched.Exec) (string, *explore.Violation)) {
		rec := vnet.ZZNewRecNIC("10.0.0.2")
		rec.SlowBy = slowBy
		var sentAt []time.Duration
		var script []string
		wrote := 0
		body := func() {
			r, err := vnet.NewRouter(&vnet.RouterConfig{CIDR: "10.0.0.0/24", MinDelay: minDelay, MaxJitter: maxJitter, LoggerFactory: logging.NewDefaultLoggerFactory()})
			if err != nil {
				panic(err)
			}
			n1, _ := vnet.NewNet(&vnet.NetConfig{StaticIPs: []string{"10.0.0.1"}})
			if err := r.AddNet(n1); err != nil {
				panic(err)
			}
			if err := r.AddNet(rec); err != nil {
				panic(err)
			}
			if err := r.Start(); err != nil {
				panic(err)
			}
			c, err := n1.ListenUDP("udp", &net.UDPAddr{IP: net.ParseIP("10.0.0.1"), Port: 1000})
			if err != nil {
				panic(err)
			}
			dst := &net.UDPAddr{IP: net.ParseIP("10.0.0.2"), Port: 2000}
			for i := 0; i < n; i++ {
				if i > 0 {
					g := gaps[zzvsched.Choose(len(gaps))]
					script = append(script, g.String())
					if g > 0 {
						zzvsched.Sleep(g)
					}
				}
				sentAt = append(sentAt, zzvsched.Elapsed())
				if _, err := c.WriteTo([]byte(fmt.Sprintf("p%d", i)), dst); err != nil {
					panic(err)
				}
				wrote++
			}
		}
		check := func(ex *zzvsched.Exec) (string, *explore.Violation) {
			var got []string
			for _, g := range rec.Got {
				got = append(got, string(g.Payload))
			}
			out := fmt.Sprintf("gaps=%v got=%v", script, got)
			pre := fmt.Sprintf("router minDelay=%v maxJitter=%v, write gaps %v: ", minDelay, maxJitter, script)
			if len(ex.Panics) > 0 {
				return out, &explore.Violation{Sig: "C14 panic router", Msg: pre + "panic: " + ex.Panics[0].Value + "\n" + ex.Panics[0].Stack}
			}
			if ex.HorizonHit {
				return out + " HORIZON", nil
			}
			for i, g := range rec.Got {
				if string(g.Payload) != fmt.Sprintf("p%d", i) {
					return out, &explore.Violation{Sig: "C14 order-or-duplicate router", Msg: pre + fmt.Sprintf("forwarded sequence %v is not the write order", got)}
				}
				if i < len(sentAt) && g.At < sentAt[i]+minDelay {
					return out, &explore.Violation{Sig: "C14 early router", Msg: pre + fmt.Sprintf("datagram %d entered the router no earlier than %v and was forwarded at %v, sooner than the minimum delay", i, sentAt[i], g.At)}
				}
			}
			if wrote < n {
				return out, &explore.Violation{Sig: "C14 write-blocked router", Msg: pre + fmt.Sprintf("WriteTo blocked for good after %d datagrams: %v", wrote, ex.Parked)}
			}
			if len(rec.Got) != n {
				return out, &explore.Violation{Sig: "C14 not-forwarded router", Msg: pre + fmt.Sprintf("%d of %d datagrams were never forwarded although the router is started (end of execution at %v)", n-len(rec.Got), n, ex.EndClock)}
			}
			return out, nil
		}
		return body, check
	}
	return sc
}

// c14twoRouters: a LAN router behind the root, both with a minimum delay: each counts from
// the moment the datagram entered *it*.
// c14restart: the router is stopped and started again while a datagram may still be on its way (and once more
// idle).  Everything written after a Start has returned (and before the next Stop is called) is "written
// while the router is running": it must be forwarded, not before its delay.  Datagrams written before a Stop
// may or may not survive it, but never arrive twice or out of order.
func c14restart(minDelay time.Duration, bound int) *explore.Scenario {
	sc := &explore.Scenario{Name: fmt.Sprintf("router minDelay=%v stopped and restarted", minDelay), Bound: bound}
	sc.Cfg.Horizon = 30 * time.Second
	sc.Make = func() (func(), func(*zzvsched.Exec) (string, *explore.Violation)) {
		rec := vnet.ZZNewRecNIC("10.0.0.2")
		sentAt := map[string]time.Duration{}
		mustArrive := map[string]bool{}
		finished := false
		var script []string
		var stopErrs []string
		body := func() {
			r, err := vnet.NewRouter(&vnet.RouterConfig{CIDR: "10.0.0.0/24", MinDelay: minDelay, LoggerFactory: logging.NewDefaultLoggerFactory()})
			if err != nil {
				panic(err)
			}
			n1, _ := vnet.NewNet(&vnet.NetConfig{StaticIPs: []string{"10.0.0.1"}})
			if err := r.AddNet(n1); err != nil {
				panic(err)
			}
			if err := r.AddNet(rec); err != nil {
				panic(err)
			}
			if err := r.Start(); err != nil {
				panic(err)
			}
			c, err := n1.ListenUDP("udp", &net.UDPAddr{IP: net.ParseIP("10.0.0.1"), Port: 1000})
			if err != nil {
				panic(err)
			}
			dst := &net.UDPAddr{IP: net.ParseIP("10.0.0.2"), Port: 2000}
			k := 0
			send := func(must bool) {
				tag := fmt.Sprintf("p%d", k)
				k++
				sentAt[tag] = zzvsched.Elapsed()
				mustArrive[tag] = must
				if _, err := c.WriteTo([]byte(tag), dst); err != nil {
					panic(err)
				}
			}
			for round := 0; round < 2; round++ {
				// one datagram that may still be in flight when Stop is called, or none
				inflight := zzvsched.Choose(2) == 1
				if inflight {
					script = append(script, "send")
					send(false)
				}
				if zzvsched.Choose(2) == 1 {
					script = append(script, "settle")
					zzvsched.WaitQuiet(minDelay + time.Millisecond)
				}
				script = append(script, "Stop")
				if err := r.Stop(); err != nil {
					stopErrs = append(stopErrs, err.Error())
				}
				script = append(script, "Start")
				if err := r.Start(); err != nil {
					stopErrs = append(stopErrs, "Start: "+err.Error())
				}
				script = append(script, "send")
				send(true)
				zzvsched.WaitQuiet(minDelay + time.Millisecond)
			}
			finished = true
		}
		check := func(ex *zzvsched.Exec) (string, *explore.Violation) {
			var got []string
			for _, g := range rec.Got {
				got = append(got, string(g.Payload))
			}
			out := fmt.Sprintf("%v got=%v", script, got)
			pre := fmt.Sprintf("router minDelay=%v, %v: ", minDelay, script)
			if len(ex.Panics) > 0 {
				return out, &explore.Violation{Sig: "C14 panic router", Msg: pre + "panic: " + ex.Panics[0].Value + "\n" + ex.Panics[0].Stack}
			}
			if ex.HorizonHit {
				return out + " HORIZON", nil
			}
			if !finished {
				return out, &explore.Violation{Sig: "C14 write-blocked router", Msg: pre + fmt.Sprintf("the script blocked for good: %v", ex.Parked)}
			}
			if len(stopErrs) > 0 {
				return out, &explore.Violation{Sig: "C14 restart-error router", Msg: pre + fmt.Sprintf("Stop/Start of a running/stopped router failed: %v", stopErrs)}
			}
			last := -1
			seen := map[string]bool{}
			for _, g := range rec.Got {
				tag := string(g.Payload)
				var i int
				if _, err := fmt.Sscanf(tag, "p%d", &i); err != nil || i <= last {
					return out, &explore.Violation{Sig: "C14 order-or-duplicate router", Msg: pre + fmt.Sprintf("forwarded sequence %v is not an in-order duplicate-free part of the writes", got)}
				}
				last = i
				seen[tag] = true
				if g.At < sentAt[tag]+minDelay {
					return out, &explore.Violation{Sig: "C14 early router", Msg: pre + fmt.Sprintf("%s entered the router no earlier than %v and was forwarded at %v, sooner than the minimum delay", tag, sentAt[tag], g.At)}
				}
			}
			for tag, must := range mustArrive {
				if must && !seen[tag] {
					return out, &explore.Violation{Sig: "C14 not-forwarded router", Msg: pre + fmt.Sprintf("%s was written after Start had returned and before any further Stop, yet it was never forwarded (got %v)", tag, got)}
				}
			}
			return out, nil
		}
		return body, check
	}
	return sc
}

func c14twoRouters(d1, d2 time.Duration, n, bound int, rootJitter ...time.Duration) *explore.Scenario {
	sc := &explore.Scenario{Name: fmt.Sprintf("routers lan minDelay=%v -> root minDelay=%v n=%d", d1, d2, n), Bound: bound}
	var jitter time.Duration
	if len(rootJitter) > 0 {
		// the parent router jitters and the datagrams are written back to back: the child forwards them in one pass
		jitter = rootJitter[0]
		sc.Name += fmt.Sprintf(" root jitter=%v, written back to back", jitter)
	}
	sc.Cfg.Horizon = 30 * time.Second
	sc.Cfg.RandMenu = func(k int64) []int64 { return []int64{0} }
	sc.Make = func() (func(), func(*zzvsched.Exec) (string, *explore.Violation)) {
		rec := vnet.ZZNewRecNIC("1.2.3.9")
		var sentAt []time.Duration
		wrote := 0
		body := func() {
			root, err := vnet.NewRouter(&vnet.RouterConfig{CIDR: "1.2.3.0/24", MinDelay: d2, MaxJitter: jitter, LoggerFactory: logging.NewDefaultLoggerFactory()})
			if err != nil {
				panic(err)
			}
			lan, err := vnet.NewRouter(&vnet.RouterConfig{CIDR: "10.0.0.0/24", MinDelay: d1, LoggerFactory: logging.NewDefaultLoggerFactory()})
			if err != nil {
				panic(err)
			}
			if err := root.AddRouter(lan); err != nil {
				panic(err)
			}
			n1, _ := vnet.NewNet(&vnet.NetConfig{StaticIPs: []string{"10.0.0.1"}})
			_ = lan.AddNet(n1)
			_ = root.AddNet(rec)
			if err := root.Start(); err != nil {
				panic(err)
			}
			c, err := n1.ListenUDP("udp", &net.UDPAddr{IP: net.ParseIP("10.0.0.1"), Port: 1000})
			if err != nil {
				panic(err)
			}
			dst := &net.UDPAddr{IP: net.ParseIP("1.2.3.9"), Port: 2000}
			for i := 0; i < n; i++ {
				if i > 0 && jitter == 0 {
					zzvsched.Sleep(d1 / 2)
				}
				sentAt = append(sentAt, zzvsched.Elapsed())
				if _, err := c.WriteTo([]byte(fmt.Sprintf("p%d", i)), dst); err != nil {
					panic(err)
				}
				wrote++
			}
		}
		check := func(ex *zzvsched.Exec) (string, *explore.Violation) {
			out := fmt.Sprint(len(rec.Got))
			pre := sc.Name + ": "
			if len(ex.Panics) > 0 {
				return out, &explore.Violation{Sig: "C14 panic router", Msg: pre + "panic: " + ex.Panics[0].Value}
			}
			if ex.HorizonHit {
				return out + " HORIZON", nil
			}
			for i, g := range rec.Got {
				if string(g.Payload) != fmt.Sprintf("p%d", i) {
					return out, &explore.Violation{Sig: "C14 order-or-duplicate router", Msg: pre + "forwarded out of order"}
				}
				if g.At < sentAt[i]+d1+d2 {
					return out, &explore.Violation{Sig: "C14 early router", Msg: pre + fmt.Sprintf("datagram %d was written at %v and left the second router at %v: less than the sum of the two minimum delays, so one router forwarded it sooner than its delay after it entered that router", i, sentAt[i], g.At)}
				}
			}
			if wrote == n && len(rec.Got) != n {
				return out, &explore.Violation{Sig: "C14 not-forwarded router", Msg: pre + fmt.Sprintf("%d of %d never forwarded", n-len(rec.Got), n)}
			}
			return out, nil
		}
		return body, check
	}
	return sc
}

func init() {
	register(&Check{ID: "C14", YieldOnRelease: true,
		Scenarios: func(tier string) []*explore.Scenario {
			var out []*explore.Scenario
			n, b := 3, 2
			if tier == "thorough" {
				n, b = 4, 2
			}
			for _, d := range []time.Duration{0, 500 * time.Microsecond, 10 * time.Millisecond} {
				out = append(out, c14filter(d, n, b, false), c14filter(d, n, b, true))
			}
			for _, md := range []time.Duration{0, time.Millisecond, 20 * time.Millisecond} {
				for _, j := range []time.Duration{0, time.Millisecond} {
					out = append(out, c14router(md, j, 3, b))
				}
			}
			out = append(out, c14filter(500*time.Microsecond, 3, 1, false, time.Millisecond), c14filter(0, 3, 1, false, 3*time.Microsecond))
			// a downstream NIC that takes longer per chunk than the spacing of the arrivals
			out = append(out, c14router(time.Millisecond, 0, 3, 1, 2*time.Microsecond), c14router(20*time.Millisecond, 0, 3, 1, 30*time.Millisecond))
			out = append(out, c14twoRouters(time.Millisecond, 20*time.Millisecond, 2, 1), c14twoRouters(10*time.Millisecond, time.Millisecond, 2, 1))
			out = append(out, c14twoRouters(time.Millisecond, time.Millisecond, 3, 1, time.Millisecond), c14twoRouters(0, 0, 2, 2, time.Millisecond))
			out = append(out, c14restart(0, 1), c14restart(time.Millisecond, 1))
			// several arrival paths at once into an idle filter
			out = append(out, c14filterConc(0, 2, 1, 2), c14filterConc(500*time.Microsecond, 2, 1, 2), c14filterConc(500*time.Microsecond, 2, 2, 1))
			// chunks that waited in a delaying router before reaching the filter (older queue timestamp)
			out = append(out, c14filterOpt(10*time.Millisecond, 2, 1, false, true), c14filterOpt(500*time.Microsecond, n, 1, false, true))
			// the Run loop stopped while datagrams wait, optionally started again
			out = append(out, c14filterStop(10*time.Millisecond, 2, 2), c14filterStop(500*time.Microsecond, 3, 1))
			if tier == "thorough" {
				out = append(out, c14filterStop(10*time.Millisecond, 3, 2), c14filterStop(0, 2, 2))
				out = append(out, c14filterConc(500*time.Microsecond, 3, 1, 2), c14filterConc(10*time.Millisecond, 2, 2, 2))
				out = append(out, c14filter(0, 3, 3, false), c14filter(500*time.Microsecond, 3, 3, false), c14router(time.Millisecond, 0, 3, 3))
			}
			return out
		},
		Rule:        "delay filter: (also: Run cancelled 0/d/2/d after the last arrival while datagrams wait, optionally run again; also: chunks that already carry a router-queue timestamp older than the delay) delays {0, 500us, 10ms} x arrival scripts of 3 (thorough 4) datagrams with gaps {0, d/2, d, 2d} x every interleaving of the Run loop, the arrival path and timer expiries within the deviation bound, under legacy and go1.23 channel-timer semantics; 2-3 concurrent arrival paths x 1-2 datagrams into an idle filter (order judged between non-overlapping pushes); router: MinDelay {0,1ms,20ms} x MaxJitter {0,1ms} (jitter draws {0,max-1}) x write gaps x schedules; the router stopped and started again twice, with and without a datagram still on its way (what is written after Start returned must be forwarded); forwarding stamps are taken in a recording NIC on the virtual clock",
		Assumptions: []string{"a thread stalled for an arbitrary time is one deviation (the clock may pass a deadline while the loop has not run)", "time.Minute idle re-arms lie beyond the 30 s horizon and never fire"}})
}
