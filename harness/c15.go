package main

import (
	"fmt"
	"strings"
	"time"

	"github.com/pion/transport/v3/vnet"
	"github.com/pion/transport/v3/zzvsched"
	"verifharness/explore"
)

// C15 — token bucket filter: over every interval the forwarded bytes stay within
// burst + rate x interval; FIFO, no duplicates; discard only when the queue is full.

type c15cfg struct {
	rate, burst, queue int
	n                  int
	setter             string // "", "rate", "burst"
	bound              int
}

func (c c15cfg) name() string {
	s := fmt.Sprintf("tbf rate=%d burst=%d queue=%d n=%d", c.rate, c.burst, c.queue, c.n)
	if c.setter != "" {
		s += " +Set(" + c.setter + ")"
	}
	return s
}

func c15scenario(c c15cfg) *explore.Scenario {
	sc := &explore.Scenario{Name: c.name(), Bound: c.bound}
	sc.Cfg.Horizon = 60 * time.Second
	gaps := []time.Duration{0, time.Millisecond, 99 * time.Millisecond, 101 * time.Millisecond, time.Second}
	sizes := []int{c.burst, c.burst / 2, 1, c.burst + 1, 0}
	if c.setter == "rate-again" {
		// a backlogged filter: a gap of a third of the time the bucket needs to fill credits less than the queued
		// half-burst datagram needs, twice that credit would be enough
		third := time.Duration(float64(c.burst) / (float64(c.rate) / 8) * 0.3 * float64(time.Second))
		gaps = []time.Duration{0, third}
		sizes = []int{c.burst, c.burst / 2, 1}
	}
	sc.Make = func() (func(), func(*zzvsched.Exec) (string, *explore.Violation)) {
		rec := vnet.ZZNewRecNIC()
		var script []string
		var sizesSent []int
		var fwdAtHandoff []int
		var sentAt []time.Duration
		var queued []string
		finished := false
		closeBegun := false
		rate2, burst2 := c.rate, c.burst
		var setStart, setEnd time.Duration = -1, -1
		_ = setStart
		body := func() {
			f, err := vnet.NewTokenBucketFilter(rec, vnet.TBFRate(c.rate), vnet.TBFMaxBurst(c.burst), vnet.TBFQueueSizeInBytes(c.queue))
			if err != nil {
				panic(err)
			}
			if c.setter == "burst-lowered-then-noop" {
				// the burst is lowered before any traffic (the bucket still holds what the old burst allowed);
				// afterwards another thread keeps calling Set with the values in force while datagrams arrive
				zzvsched.WaitIdle() // the filter's loop has credited its initial tokens (a full bucket at the old burst)
				burst2 = c.burst / 4
				f.Set(vnet.TBFMaxBurst(burst2))
				setEnd = zzvsched.Elapsed()
				_ = zzvsched.Now() // one clock tick: everything handed over from now on is strictly after the change
				zzvsched.GoNamed("setter", func() {
					f.Set(vnet.TBFRate(c.rate))
					f.Set(vnet.TBFMaxBurst(burst2))
				})
			}
			if c.setter == "close-concurrent" {
				// Close at any point of the arrivals: whoever arrives afterwards may wait for ever (the filter is
				// dead), but nothing may overtake, be duplicated or exceed the envelope
				zzvsched.GoNamed("closer", func() {
					closeBegun = true
					_ = f.Close()
				})
			}
			if c.setter != "" && c.setter != "close" && c.setter != "close-concurrent" && c.setter != "burst-lowered-then-noop" {
				zzvsched.GoNamed("setter", func() {
					setStart = zzvsched.Elapsed()
					if c.setter == "rate" {
						rate2 = c.rate / 4
						f.Set(vnet.TBFRate(rate2))
					} else if c.setter == "rate-again" {
						// the rate in force is set again, twice: nothing changes.  The setter may begin later (a sleeping
						// thread is not a stalled one), at the instant of a later arrival
						if zzvsched.Choose(2) == 1 {
							zzvsched.Sleep(gaps[1])
						}
						setStart = zzvsched.Elapsed()
						f.Set(vnet.TBFRate(c.rate))
						f.Set(vnet.TBFRate(c.rate))
					} else if c.setter == "burst-down-up" {
						// lowered, then restored with the option Set returned: the larger value governs throughout
						prev := f.Set(vnet.TBFMaxBurst(c.burst / 4))
						zzvsched.Sleep(time.Millisecond)
						f.Set(prev)
					} else {
						burst2 = c.burst / 4
						f.Set(vnet.TBFMaxBurst(burst2))
					}
					setEnd = zzvsched.Elapsed()
				})
			}
			for i := 0; i < c.n; i++ {
				g := gaps[zzvsched.Choose(len(gaps))]
				sz := sizes[zzvsched.Choose(len(sizes))]
				script = append(script, fmt.Sprintf("+%v:%dB", g, sz))
				if g > 0 {
					zzvsched.Sleep(g)
				}
				p := make([]byte, sz)
				if sz > 0 {
					p[0] = byte(i)
				}
				sizesSent = append(sizesSent, sz)
				// taken before the hand-over: a lower bound of what has been forwarded when the
				// loop enqueues this chunk, hence an upper bound of the queue occupancy
				fwdAtHandoff = append(fwdAtHandoff, len(rec.Got))
				sentAt = append(sentAt, zzvsched.Elapsed())
				vnet.ZZPush(f, vnet.ZZUDPChunk("10.0.0.1:1", fmt.Sprintf("10.0.0.2:%d", 1000+i), p))
			}
			if c.setter == "close" {
				// Close right behind the last arrival: the loop may still be forwarding
				_ = f.Close()
			}
			zzvsched.WaitIdle()
			queued = vnet.ZZTBFQueued(f)
			finished = true
		}
		check := func(ex *zzvsched.Exec) (string, *explore.Violation) {
			var got []string
			for _, g := range rec.Got {
				got = append(got, g.Dst[len("10.0.0.2:"):])
			}
			out := fmt.Sprintf("%v -> %v", script, got)
			pre := fmt.Sprintf("tbf rate=%d bit/s burst=%d B queue=%d B, arrivals %v: ", c.rate, c.burst, c.queue, script)
			if len(ex.Panics) > 0 {
				return out, &explore.Violation{Sig: "C15 panic", Msg: pre + "panic: " + ex.Panics[0].Value + "\n" + ex.Panics[0].Stack}
			}
			if ex.HorizonHit {
				return out + " HORIZON", nil
			}
			if !finished && !closeBegun {
				return out, &explore.Violation{Sig: "C15 blocked", Msg: pre + fmt.Sprint("arrival path blocked: ", ex.Parked)}
			}
			// in-order duplicate-free unmodified subsequence
			last := -1
			idx := make([]int, len(rec.Got))
			for k, g := range rec.Got {
				var port int
				fmt.Sscanf(g.Dst, "10.0.0.2:%d", &port)
				i := port - 1000
				if i <= last || i >= len(sizesSent) {
					return out, &explore.Violation{Sig: "C15 order-or-duplicate", Msg: pre + fmt.Sprintf("forwarded sequence %v is not an in-order duplicate-free subsequence of the arrivals", got)}
				}
				if len(g.Payload) != sizesSent[i] || (len(g.Payload) > 0 && g.Payload[0] != byte(i)) {
					return out, &explore.Violation{Sig: "C15 modified", Msg: pre + fmt.Sprintf("datagram %d was modified", i)}
				}
				last = i
				idx[k] = i
			}
			// the envelope over every sub-interval.  It is judged on executions in which no
			// thread was stalled while time passed: a stall between the filter's token
			// accounting and the hand-over to the NIC compresses the output like jitter
			// behind the filter would, and no implementation can exclude it.
			for i := 0; i < len(rec.Got) && ex.Stalls == 0; i++ {
				sum := 0
				for j := i; j < len(rec.Got); j++ {
					sum += len(rec.Got[j].Payload)
					ti, tj := rec.Got[i].At, rec.Got[j].At
					// most lenient reading across a reconfiguration: the larger value counts unless
					// the change had returned before the first datagram of the interval was even
					// handed to the filter (its refill-and-drain step is then entirely after it)
					r, b := c.rate, c.burst
					if c.setter != "" && !strings.HasPrefix(c.setter, "close") && setEnd >= 0 && setEnd < sentAt[idx[i]] {
						r, b = rate2, burst2
					}
					allowed := float64(b) + float64(r)/8*(tj-ti).Seconds()
					if float64(sum) > allowed+1e-6 {
						return out, &explore.Violation{Sig: "C15 envelope-exceeded" + map[bool]string{true: " after-reconfiguration", false: ""}[c.setter != "" && !strings.HasPrefix(c.setter, "close")], Msg: pre + fmt.Sprintf("%d bytes were forwarded in the %v between %v and %v; burst + rate x interval allows %.0f", sum, tj-ti, ti, tj, allowed)}
					}
				}
			}
			if !finished {
				return out, nil // an arrival waits on the closed filter: what is still queued cannot be inspected
			}
			// discards only when the byte queue is full
			fwd := map[int]int{} // arrival index -> position in rec.Got
			for k, i := range idx {
				fwd[i] = k
			}
			still := map[int]bool{}
			for _, q := range queued {
				var port int
				fmt.Sscanf(q, "10.0.0.2:%d", &port)
				still[port-1000] = true
			}
			for k := range sizesSent {
				if _, ok := fwd[k]; ok || still[k] {
					continue
				}
				// k was discarded: what was queued when it was handed over?
				occ := 0
				for j := 0; j < k; j++ {
					pos, f := fwd[j]
					if (f && pos >= fwdAtHandoff[k]) || still[j] {
						occ += sizesSent[j]
					}
				}
				if occ+sizesSent[k] < c.queue {
					return out, &explore.Violation{Sig: "C15 discarded-with-room", Msg: pre + fmt.Sprintf("datagram %d (%d B) was discarded although only %d B of the %d B queue were in use (still queued: %v)", k, sizesSent[k], occ, c.queue, queued)}
				}
			}
			return out, nil
		}
		return body, check
	}
	return sc
}

// c15long: a long regular stream of tiny datagrams.  Per-arrival accounting errors (rounding,
// truncation in the wrong direction) are far below one byte each and only show after hundreds
// of arrivals.  Oracle: an ideal bucket that starts full when the filter is created and is charged
// for everything the filter forwards must never go negative - this is equivalent to the envelope
// "bytes in any interval <= burst + rate x length".
func c15long(rate, burst int, gap time.Duration, size, n int) *explore.Scenario {
	sc := &explore.Scenario{Name: fmt.Sprintf("tbf long stream rate=%d burst=%d gap=%v size=%d n=%d", rate, burst, gap, size, n), Bound: 0}
	sc.Cfg.Horizon = 600 * time.Second
	sc.Cfg.Strict = true
	sc.Cfg.MaxSteps = 5000000
	sc.Make = func() (func(), func(*zzvsched.Exec) (string, *explore.Violation)) {
		rec := vnet.ZZNewRecNIC()
		var t0 time.Duration
		finished := false
		body := func() {
			t0 = zzvsched.Elapsed()
			f, err := vnet.NewTokenBucketFilter(rec, vnet.TBFRate(rate), vnet.TBFMaxBurst(burst), vnet.TBFQueueSizeInBytes(50000))
			if err != nil {
				panic(err)
			}
			for i := 0; i < n; i++ {
				zzvsched.Sleep(gap)
				vnet.ZZPush(f, vnet.ZZUDPChunk("10.0.0.1:1", "10.0.0.2:2", make([]byte, size)))
			}
			zzvsched.WaitIdle()
			finished = true
		}
		check := func(ex *zzvsched.Exec) (string, *explore.Violation) {
			out := fmt.Sprintf("forwarded %d of %d", len(rec.Got), n)
			if len(ex.Panics) > 0 {
				return out, &explore.Violation{Sig: "C15 panic", Msg: sc.Name + ": panic: " + ex.Panics[0].Value}
			}
			if !finished {
				if ex.HorizonHit {
					return out + " HORIZON", nil
				}
				return out, &explore.Violation{Sig: "C15 blocked", Msg: sc.Name + fmt.Sprint(": blocked: ", ex.Parked)}
			}
			tokens := float64(burst)
			last := t0
			sum := 0
			for i, g := range rec.Got {
				tokens = tokens + float64(rate)/8*(g.At-last).Seconds()
				if tokens > float64(burst) {
					tokens = float64(burst)
				}
				last = g.At
				tokens -= float64(len(g.Payload))
				sum += len(g.Payload)
				if tokens < -1e-6 {
					return out, &explore.Violation{Sig: "C15 envelope-exceeded long-stream", Msg: fmt.Sprintf("%s: after forwarding datagram %d at %v (%d bytes since %v) an ideal bucket of %d B refilled at %d bit/s would be overdrawn by %.2f B: some interval carried more than burst + rate x length", sc.Name, i, g.At, sum, t0, burst, rate, -tokens)}
				}
			}
			return out, nil
		}
		return body, check
	}
	return sc
}

// c15tinyQueue: the byte queue holds only a few bytes and zero-length datagrams pile up behind a head that waits
// for tokens: they occupy no bytes, so none of them may be discarded ("only when the byte queue is full"), and
// whatever is forwarded leaves in arrival order.  The filter forwards only when something arrives (it has no
// timer), so two later arrivals drive it; no datagram is REQUIRED to have left - the forwarded sequence must be a
// gap-free prefix of the arrivals.
func c15tinyQueue(queue, zeros, bound int) *explore.Scenario {
	name := fmt.Sprintf("tbf byte queue of %d bytes, %d zero-length datagrams behind a blocked 1-byte head", queue, zeros)
	sc := &explore.Scenario{Name: name, Bound: bound}
	sc.Cfg.Horizon = 60 * time.Second
	sc.Make = func() (func(), func(*zzvsched.Exec) (string, *explore.Violation)) {
		rec := vnet.ZZNewRecNIC()
		finished := false
		body := func() {
			f, err := vnet.NewTokenBucketFilter(rec, vnet.TBFRate(8*vnet.KBit), vnet.TBFMaxBurst(1), vnet.TBFQueueSizeInBytes(queue))
			if err != nil {
				panic(err)
			}
			zzvsched.WaitIdle()
			push := func(p string) { vnet.ZZPush(f, vnet.ZZUDPChunk("10.0.0.1:1", "10.0.0.2:2", []byte(p))) }
			// two 1-byte datagrams: the first spends the burst, the second waits for a token (1 byte per ms)
			push("A")
			push("B")
			for i := 0; i < zeros; i++ {
				push("")
			}
			push("C")
			// at most B, C, D, E (4 bytes) are ever queued: below the queue size, nothing may be discarded
			zzvsched.Sleep(2 * time.Millisecond)
			push("D")
			zzvsched.Sleep(2 * time.Millisecond)
			push("E")
			finished = true
		}
		check := func(ex *zzvsched.Exec) (string, *explore.Violation) {
			var got []string
			for _, g := range rec.Got {
				got = append(got, fmt.Sprintf("%q", g.Payload))
			}
			out := strings.Join(got, ",")
			if len(ex.Panics) > 0 {
				return out, &explore.Violation{Sig: "C15 panic", Msg: name + ": panic: " + ex.Panics[0].Value}
			}
			if ex.HorizonHit {
				return out + " HORIZON", nil
			}
			if !finished {
				return out, &explore.Violation{Sig: "C15 blocked", Msg: name + fmt.Sprint(": the arrival path blocked: ", ex.Parked)}
			}
			want := []string{`"A"`, `"B"`}
			for i := 0; i < zeros; i++ {
				want = append(want, `""`)
			}
			want = append(want, `"C"`, `"D"`, `"E"`)
			for i, g := range got {
				if i >= len(want) || g != want[i] {
					return out, &explore.Violation{Sig: "C15 discarded-or-reordered tiny-queue", Msg: fmt.Sprintf("%s: arrivals A, B, %d empty datagrams, C, D, E (never more than 4 bytes queued) were forwarded as [%s]: position %d is not the next arrival, so a datagram was discarded or overtaken although the byte queue was not full", name, zeros, out, i)}
				}
			}
			return out, nil
		}
		return body, check
	}
	return sc
}

// c15twoPaths: two threads hand datagrams to one filter (a router with two senders does this).  A backlogged
// filter, gaps of a third of the bucket's fill time; the envelope is judged whenever only ARRIVAL threads were
// held up (a sender that is slow to hand over only delays its datagram; what must not happen is that time is
// credited twice).
func c15twoPaths(rate, burst, bound int) *explore.Scenario {
	sc := &explore.Scenario{Name: fmt.Sprintf("tbf rate=%d burst=%d, two arrival paths", rate, burst), Bound: bound}
	sc.Cfg.Horizon = 60 * time.Second
	third := time.Duration(float64(burst) / (float64(rate) / 8) * 0.3 * float64(time.Second))
	sc.Make = func() (func(), func(*zzvsched.Exec) (string, *explore.Violation)) {
		rec := vnet.ZZNewRecNIC()
		done := 0
		var t0 time.Duration
		body := func() {
			t0 = zzvsched.Elapsed()
			f, err := vnet.NewTokenBucketFilter(rec, vnet.TBFRate(rate), vnet.TBFMaxBurst(burst), vnet.TBFQueueSizeInBytes(50000))
			if err != nil {
				panic(err)
			}
			zzvsched.WaitIdle()
			// let the bucket fill completely (it starts with 100 ms worth of tokens), empty it with one burst-sized
			// datagram and leave a backlog that soaks up every credit for the rest of the run
			zzvsched.Sleep(time.Duration(float64(burst) / (float64(rate) / 8) * 1.2 * float64(time.Second)))
			vnet.ZZPush(f, vnet.ZZUDPChunk("10.0.0.1:1", "10.0.0.2:1000", make([]byte, burst)))
			for k := 1; k <= 6; k++ {
				vnet.ZZPush(f, vnet.ZZUDPChunk("10.0.0.1:1", fmt.Sprintf("10.0.0.2:%d", 1000+k), make([]byte, burst/4)))
			}
			// path 0 hands over a datagram every third of the fill time, path 1 only one (it may be slow about it)
			zzvsched.GoNamed("arrive0", func() {
				for k := 0; k < 3; k++ {
					zzvsched.Sleep(third)
					vnet.ZZPush(f, vnet.ZZUDPChunk("10.0.0.1:1", fmt.Sprintf("10.0.0.2:%d", 2000+k), make([]byte, 1)))
				}
				done++
			})
			zzvsched.GoNamed("arrive1", func() {
				zzvsched.Sleep(third)
				vnet.ZZPush(f, vnet.ZZUDPChunk("10.0.0.1:1", "10.0.0.2:3000", make([]byte, 1)))
				done++
			})
			zzvsched.WaitIdle()
		}
		check := func(ex *zzvsched.Exec) (string, *explore.Violation) {
			out := fmt.Sprintf("forwarded %d", len(rec.Got))
			if len(ex.Panics) > 0 {
				return out, &explore.Violation{Sig: "C15 panic", Msg: sc.Name + ": panic: " + ex.Panics[0].Value}
			}
			if ex.HorizonHit {
				return out + " HORIZON", nil
			}
			if done != 2 {
				return out, &explore.Violation{Sig: "C15 blocked", Msg: sc.Name + fmt.Sprint(": an arrival path blocked: ", ex.Parked)}
			}
			for _, n := range ex.Stalled {
				// harmless: an arrival thread that is slow to hand over, and the filter's loop while it merely waits
				// to receive the next datagram (the hand-over needs both)
				if !strings.HasPrefix(n, "arrive") && !strings.HasSuffix(n, "@select") {
					return out + " (filter loop stalled)", nil // see c15scenario: output compression by a stalled loop is not the filter's doing
				}
			}
			// ideal bucket: full when the filter is created, charged for everything forwarded
			tokens, last := float64(burst), t0
			for i, g := range rec.Got {
				tokens += float64(rate) / 8 * (g.At - last).Seconds()
				if tokens > float64(burst) {
					tokens = float64(burst)
				}
				last = g.At
				tokens -= float64(len(g.Payload))
				if tokens < -1e-6 {
					return out, &explore.Violation{Sig: "C15 envelope-exceeded two-paths", Msg: fmt.Sprintf("%s: after forwarding datagram %d (%d B, to %s) at %v an ideal bucket of %d B refilled at %d bit/s would be overdrawn by %.1f B: some interval carried more than burst + rate x length", sc.Name, i, len(g.Payload), g.Dst, g.At, burst, rate, -tokens)}
				}
			}
			return out, nil
		}
		return body, check
	}
	return sc
}

func init() {
	register(&Check{ID: "C15", YieldOnRelease: true,
		Scenarios: func(tier string) []*explore.Scenario {
			var out []*explore.Scenario
			n := 3
			if tier == "thorough" {
				n = 4
			}
			for _, r := range []int{8 * vnet.KBit, 1 * vnet.MBit} {
				for _, b := range []int{1000, 8000} {
					for _, q := range []int{2000, 50000} {
						out = append(out, c15scenario(c15cfg{rate: r, burst: b, queue: q, n: n, bound: 0}))
					}
					out = append(out, c15scenario(c15cfg{rate: r, burst: b, queue: 50000, n: n - 1, setter: "rate", bound: 1}))
					out = append(out, c15scenario(c15cfg{rate: r, burst: b, queue: 50000, n: n - 1, setter: "burst", bound: 1}))
					out = append(out, c15scenario(c15cfg{rate: r, burst: b, queue: 50000, n: n - 1, setter: "burst-down-up", bound: 1}))
					out = append(out, c15scenario(c15cfg{rate: r, burst: b, queue: 50000, n: 3, setter: "rate-again", bound: 1}))
					out = append(out, c15scenario(c15cfg{rate: r, burst: b, queue: 50000, n: 1, setter: "burst-lowered-then-noop", bound: 2}))
					out = append(out, c15scenario(c15cfg{rate: r, burst: b, queue: 50000, n: n - 1, setter: "close", bound: 2}))
					out = append(out, c15scenario(c15cfg{rate: r, burst: b, queue: 50000, n: n - 1, setter: "close-concurrent", bound: 1}))
				}
			}
			out = append(out, c15twoPaths(8*vnet.KBit, 1000, 2), c15twoPaths(1*vnet.MBit, 8000, 2))
			// a byte queue of a few bytes with more (zero-length) datagrams waiting than it has bytes
			out = append(out, c15tinyQueue(5, 7, 1), c15tinyQueue(6, 12, 0))
			// long regular streams: gaps that give a fractional per-arrival credit in every direction
			ln := 1500
			if tier == "thorough" {
				ln = 6000
			}
			for _, g := range []time.Duration{300 * time.Microsecond, 600 * time.Microsecond, 800 * time.Microsecond, 1300 * time.Microsecond, 1700 * time.Microsecond, 2500 * time.Microsecond} {
				for _, sz := range []int{1, 2} {
					out = append(out, c15long(8*vnet.KBit, 100, g, sz, ln))
				}
			}
			for _, g := range []time.Duration{3 * time.Microsecond, 7 * time.Microsecond, 11 * time.Microsecond} {
				out = append(out, c15long(1*vnet.MBit, 100, g, 1, ln))
			}
			return out
		},
		Rule: "rates {8 kbit/s, 1 Mbit/s} x bursts {1000, 8000 B} x queue sizes {2000, 50000 B} x every arrival script of 3 (thorough 4) datagrams over gaps {0,1ms,99ms,101ms,1s} and sizes {0,1,B/2,B,B+1}, optionally with a concurrent Set(rate/4), Set(burst/4) or Set(burst/4) before any traffic followed by concurrent no-op Sets, Set(the rate in force, twice, on a backlogged filter with gaps of a third of the bucket's fill time) placed at every scheduling point, or with Close called right behind the last arrival while the loop may still be forwarding, or from a separate thread at any point of the arrivals; two concurrent arrival paths into a backlogged filter (ideal-bucket oracle; sender stalls allowed); every pair of forwarded datagrams bounds an interval for which the byte count is compared with burst + rate x length; plus a byte queue of 5/6 bytes with 7/12 zero-length datagrams behind a 1-byte head waiting for a token, driven by two later arrivals (forwarded sequence = gap-free prefix of the arrivals)",
		Assumptions: []string{"across a reconfiguration the larger rate/burst applies unless the change completed before the interval began (most lenient sound reading)",
			"a discard counts as 'queue full' when queued bytes + packet length reach the configured queue size"}})
}
