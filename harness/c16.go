package main

import (
	"bytes"
	"fmt"
	"math"
	"sort"
	"strings"

	"github.com/pion/transport/v3/vnet"
	"github.com/pion/transport/v3/zzvsched"
	"verifharness/explore"
)

// C16 — loss filter.  The PRNG draw is an environment choice of the explorer:
// for one datagram all 100 values of Intn(100) are enumerated, for streams of up
// to three datagrams the boundary draws {0, chance-1, chance, 99}.

func c16menu(chance, stream int) []int64 {
	if stream >= 100 {
		// long run: one fixed draw per datagram - 600 consecutive drops (draw chance-1) or,
		// for an odd stream length, 601 consecutive forwards (draw chance), clamped to [0,99]
		v := int64(chance) - 1
		if stream%2 == 1 {
			v = int64(chance)
		}
		if v < 0 {
			v = 0
		}
		if v > 99 {
			v = 99
		}
		return []int64{v}
	}
	if stream == 1 {
		m := make([]int64, 100)
		for i := range m {
			m[i] = int64(i)
		}
		return m
	}
	set := map[int64]bool{0: true, 99: true}
	for _, v := range []int64{int64(chance) - 1, int64(chance)} {
		if v >= 0 && v <= 99 {
			set[v] = true
		}
	}
	var m []int64
	for v := int64(0); v < 100; v++ {
		if set[v] {
			m = append(m, v)
		}
	}
	return m
}

// others=true: between the datagrams of the stream other loss filters are constructed and used (a network
// has one per link).  The draws of successive datagrams must stay independent: every combination of the
// menu values is reachable (Final).  The global generator is modelled as a deterministic function of
// (seed, position), so re-seeding it with a repeated value replays earlier draws.
func c16scenario(chance, stream int, others ...bool) *explore.Scenario {
	sc := &explore.Scenario{Name: fmt.Sprintf("loss chance=%d stream=%d", chance, stream), Bound: 0, NoFP: true}
	withOthers := len(others) > 0 && others[0]
	if withOthers {
		sc.Name += " +other filters constructed in between"
	}
	combos := int64(1)
	for i := 0; i < stream; i++ {
		combos *= int64(len(c16menu(chance, stream)))
	}
	sc.Final = func(outcomes map[string]int64) *explore.Violation {
		seqs := map[string]bool{}
		for o := range outcomes {
			if i := strings.Index(o, " forwarded="); i > 0 {
				seqs[o[:i]] = true
			}
		}
		if int64(len(seqs)) != combos {
			var l []string
			for k := range seqs {
				l = append(l, k)
			}
			sort.Strings(l)
			if len(l) > 8 {
				l = l[:8]
			}
			return &explore.Violation{Sig: "C16 draws-not-independent", Msg: fmt.Sprintf("%s: %d datagrams with %d possible draw values each must be able to see all %d combinations of draws, but only %d are reachable (%v ...): the draws of successive datagrams are not independent, so the dropped fraction of a stream is not chance/100", sc.Name, stream, len(c16menu(chance, stream)), combos, len(seqs), l)}
		}
		return nil
	}
	sc.Make = func() (func(), func(*zzvsched.Exec) (string, *explore.Violation)) {
		var draws []int64
		var menuN []int64
		rec := vnet.ZZNewRecNIC()
		var sent [][]byte
		var sentStr []string
		var fwdAfter []int // number of forwarded chunks after each push
		sc.Cfg.RandLog = &draws
		sc.Cfg.RandMenu = func(n int64) []int64 {
			menuN = append(menuN, n)
			if n != 100 {
				return []int64{0, n - 1}
			}
			return c16menu(chance, stream)
		}
		body := func() {
			f, err := vnet.NewLossFilter(rec, chance)
			if err != nil {
				panic(err)
			}
			for i := 0; i < stream; i++ {
				p := []byte(fmt.Sprintf("dgram-%d-%d", chance, i))
				sent = append(sent, append([]byte(nil), p...))
				var c vnet.Chunk
				if i%2 == 1 || stream == 1 && chance%2 == 0 {
					c = vnet.ZZTCPChunk("10.0.0.1:1000", "10.0.0.2:2000", p) // filters are protocol agnostic
				} else {
					c = vnet.ZZUDPChunk("10.0.0.1:1000", "10.0.0.2:2000", p)
				}
				sentStr = append(sentStr, c.String())
				if withOthers && i > 0 {
					// another link's filter is created (chance 0: it makes no draw of its own that would matter)
					if _, err := vnet.NewLossFilter(vnet.ZZNewRecNIC(), 0); err != nil {
						panic(err)
					}
				}
				vnet.ZZPush(f, c)
				fwdAfter = append(fwdAfter, len(rec.Got))
			}
		}
		check := func(ex *zzvsched.Exec) (string, *explore.Violation) {
			out := fmt.Sprintf("draws=%v forwarded=%d", draws, len(rec.Got))
			if len(ex.Panics) > 0 {
				return out, &explore.Violation{Msg: "panic: " + ex.Panics[0].Value, Sig: "C16 panic"}
			}
			if len(draws) != stream {
				return out, &explore.Violation{Msg: fmt.Sprintf("%d datagrams caused %d random draws (ranges %v); the rule is one uniform draw from [0,100) per datagram", stream, len(draws), menuN), Sig: "C16 draw-count"}
			}
			for _, n := range menuN {
				if n != 100 {
					return out, &explore.Violation{Msg: fmt.Sprintf("draw from [0,%d) instead of [0,100)", n), Sig: "C16 draw-range"}
				}
			}
			// forwarded <=> draw >= chance, so exactly clamp(chance,0,100) of the 100 draws drop
			var want [][]byte
			var wantStr []string
			prev := 0
			for i, d := range draws {
				fw := fwdAfter[i] - prev
				prev = fwdAfter[i]
				should := 0
				if d >= int64(chance) {
					should = 1
					want = append(want, sent[i])
					wantStr = append(wantStr, sentStr[i])
				}
				if fw != should {
					return out, &explore.Violation{Msg: fmt.Sprintf("chance=%d draw=%d: datagram forwarded %d time(s), want %d", chance, d, fw, should), Sig: "C16 drop-rule"}
				}
			}
			if len(rec.Got) != len(want) {
				return out, &explore.Violation{Msg: "forwarded count differs", Sig: "C16 drop-rule"}
			}
			for i, g := range rec.Got {
				if !bytes.Equal(g.Payload, want[i]) || g.Src != "10.0.0.1:1000" || g.Dst != "10.0.0.2:2000" || g.Str != wantStr[i] {
					return out, &explore.Violation{Msg: fmt.Sprintf("survivor %d altered or out of order: %q from %s to %s, described as %q (handed in as %q)", i, g.Payload, g.Src, g.Dst, g.Str, wantStr[i]), Sig: "C16 survivor-altered"}
				}
			}
			return out, nil
		}
		return body, check
	}
	return sc
}

// c16stacked: one loss filter in front of another (two lossy links in a row).  Whatever the implementation
// does internally, a datagram must get through with probability (1-p1)(1-p2), p = clamp(chance,0,100)/100:
// all values of every Intn(100) draw are enumerated, every execution is weighted 100^-draws, and the
// set-level oracle compares the forwarded weight with the product (tolerance one percentage point).
func c16stacked(c1, c2 int) *explore.Scenario {
	sc := &explore.Scenario{Name: fmt.Sprintf("loss filters stacked: chance=%d in front of chance=%d", c1, c2), Bound: 0, NoFP: true}
	clamp := func(c int) float64 {
		if c < 0 {
			c = 0
		}
		if c > 100 {
			c = 100
		}
		return float64(c) / 100
	}
	want := (1 - clamp(c1)) * (1 - clamp(c2))
	sc.Final = func(outcomes map[string]int64) *explore.Violation {
		got, total := 0.0, 0.0
		for o, n := range outcomes {
			var draws, fwd int
			fmt.Sscanf(o, "ndraws=%d forwarded=%d", &draws, &fwd)
			w := float64(n) * math.Pow(100, -float64(draws))
			total += w
			if fwd == 1 {
				got += w
			}
		}
		if math.Abs(total-1) > 1e-9 {
			return &explore.Violation{Sig: "C16 draw-range", Msg: fmt.Sprintf("%s: the enumerated draws do not form a probability space (total weight %.6f): a draw was not from [0,100)", sc.Name, total)}
		}
		if math.Abs(got-want) > 0.0101 {
			return &explore.Violation{Sig: "C16 stacked-fraction", Msg: fmt.Sprintf("%s: a datagram gets through with probability %.4f; two independent losses of %d%% and %d%% (clamped to 0..100) give %.4f", sc.Name, got, c1, c2, want)}
		}
		return nil
	}
	sc.Make = func() (func(), func(*zzvsched.Exec) (string, *explore.Violation)) {
		var draws []int64
		badRange := false
		rec := vnet.ZZNewRecNIC()
		sc.Cfg.RandLog = &draws
		sc.Cfg.RandMenu = func(n int64) []int64 {
			if n != 100 {
				badRange = true
				return []int64{0, n - 1}
			}
			return c16menu(0, 1)
		}
		p := []byte("stacked")
		var str string
		body := func() {
			inner, err := vnet.NewLossFilter(rec, c2)
			if err != nil {
				panic(err)
			}
			outer, err := vnet.NewLossFilter(inner, c1)
			if err != nil {
				panic(err)
			}
			c := vnet.ZZUDPChunk("10.0.0.1:1000", "10.0.0.2:2000", append([]byte(nil), p...))
			str = c.String()
			vnet.ZZPush(outer, c)
		}
		check := func(ex *zzvsched.Exec) (string, *explore.Violation) {
			out := fmt.Sprintf("ndraws=%d forwarded=%d draws=%v", len(draws), len(rec.Got), draws)
			if len(ex.Panics) > 0 {
				return out, &explore.Violation{Msg: sc.Name + ": panic: " + ex.Panics[0].Value, Sig: "C16 panic"}
			}
			if badRange {
				return out, &explore.Violation{Msg: sc.Name + ": a draw from a range other than [0,100)", Sig: "C16 draw-range"}
			}
			if len(rec.Got) > 1 {
				return out, &explore.Violation{Msg: sc.Name + ": the datagram was forwarded more than once", Sig: "C16 survivor-altered"}
			}
			for _, g := range rec.Got {
				if !bytes.Equal(g.Payload, p) || g.Src != "10.0.0.1:1000" || g.Dst != "10.0.0.2:2000" || g.Str != str {
					return out, &explore.Violation{Msg: fmt.Sprintf("%s: survivor altered: %q from %s to %s", sc.Name, g.Payload, g.Src, g.Dst), Sig: "C16 survivor-altered"}
				}
			}
			return out, nil
		}
		return body, check
	}
	return sc
}

func init() {
	register(&Check{ID: "C16", ShardByScenario: true,
		Scenarios: func(tier string) []*explore.Scenario {
			var out []*explore.Scenario
			// out-of-range values, including ones whose low 32 / 8 / 16 bits look like a valid chance
			chances := []int{-1000, 1000, 1 << 31, 1 << 32, 1<<32 + 50, 1 << 40, 1<<40 + 7, -(1 << 32) + 50, 256 + 50, 65536 + 50, int(^uint(0) >> 1), -int(^uint(0)>>1) - 1}
			for c := -5; c <= 105; c++ {
				chances = append(chances, c)
			}
			for _, c := range chances {
				out = append(out, c16scenario(c, 1))
				out = append(out, c16scenario(c, 2))
				out = append(out, c16scenario(c, 3))
				if c >= 0 && c <= 100 && (c%10 == 0 || c == 1 || c == 99) {
					out = append(out, c16scenario(c, 2, true), c16scenario(c, 3, true))
				}
			}
			// long runs: state that accumulates over hundreds of consecutive drops / forwards (round 15)
			for _, c := range []int{0, 1, 50, 99, 100, 150} {
				out = append(out, c16scenario(c, 600), c16scenario(c, 601))
			}
			for _, pr := range [][2]int{{50, 50}, {0, 100}, {100, 0}, {30, 70}, {99, 1}, {100, 100}, {200, 200}, {150, 150}, {300, 120}, {-5, 50}, {0, 0}} {
				out = append(out, c16stacked(pr[0], pr[1]))
			}
			return out
		},
		Rule:        "for every chance in {-5..105 and out-of-range values: -1000, 1000, 2^31, 2^32, 2^32+50, 2^40, 306, 65586, -2^32+50, MaxInt, MinInt}: one datagram x all 100 values of the Intn(100) draw, and streams of 2 and 3 datagrams x the boundary draws {0,chance-1,chance,99}; for chance in {0,1,50,99,100,150} also runs of 600 datagrams all drawn chance-1 (consecutive drops) and 601 all drawn chance (consecutive forwards); oracle: exactly one draw from [0,100) per datagram, forwarded iff draw >= chance (hence exactly clamp(chance,0,100) of the 100 equally likely draws drop), survivors byte-identical, in order, once; per scenario the SET of explored draw sequences must be the full product of the menus (draws of successive datagrams independent), also when other loss filters are constructed between the datagrams (the global generator is modelled as a deterministic function of seed and position); two filters stacked (11 chance pairs incl. out-of-range ones): all 100 values of every draw, executions weighted 100^-draws, the forwarded weight must equal (1-p1)(1-p2) within one percentage point",
		Assumptions: []string{"math/rand.Intn is uniform; the statistical clause of the property is replaced by exact enumeration of the draw space"}})
}
