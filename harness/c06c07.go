package main

import (
	"bytes"
	"errors"
	"fmt"
	"io"
	"strconv"
	"strings"
	"time"

	"github.com/pion/transport/v3/packetio"
	"github.com/pion/transport/v3/zzvsched"
	"verifharness/explore"
)

// C06 / C07 — packet buffer: FIFO integrity (C06) and limits / occupancy (C07).
// Sequential histories of the real Buffer (run as a single managed thread under
// the scheduler, so a Read that would block is detected instead of hanging)
// against a boring FIFO model.

const bufCap4M = 4 * 1024 * 1024

type bufSys struct {
	mode      string // "C06" or "C07"
	b         *packetio.Buffer
	q         [][]byte
	limC      int
	limS      int
	closed    bool
	refused   bool // a write has been refused earlier in this history
	seq       int
	alphabet  []string
	scratch   []byte
	lastOp    *string
	sizeBytes int
}

func newBufSys(mode string, alphabet []string, lastOp *string) *bufSys {
	return &bufSys{mode: mode, b: packetio.NewBuffer(), alphabet: alphabet, lastOp: lastOp}
}

func (s *bufSys) size() int { return s.sizeBytes }

func pktBytes(seq, n int) []byte {
	p := make([]byte, n)
	for i := range p {
		p[i] = byte(seq*31 + i*7 + 3)
	}
	if n > 0 {
		p[0] = byte(seq)
	}
	if n > 1 {
		p[n-1] = byte(seq ^ 0xA5)
	}
	return p
}

func (s *bufSys) Ops() []string {
	var out []string
	for _, op := range s.alphabet {
		if op[0] == 'R' && len(s.q) == 0 && !s.closed {
			continue // would block: that side is C08's
		}
		out = append(out, op)
	}
	return out
}

// Apply executes one operation on the real buffer and the model.
func (s *bufSys) Apply(op string) (obs, sig, msg string) {
	defer panicAsViolation(op, &sig, &msg)
	if s.lastOp != nil {
		*s.lastOp = op
	}
	c06 := s.mode == "C06"
	arg := 0
	if len(op) > 1 {
		arg, _ = strconv.Atoi(strings.TrimLeft(op, "WRLCSXclose"))
	}
	switch {
	case op == "Close":
		_ = s.b.Close()
		s.closed = true
		obs = "close"
	case strings.HasPrefix(op, "LC"):
		s.b.SetLimitCount(arg)
		s.limC = arg
		obs = "lc"
	case strings.HasPrefix(op, "LS"):
		s.b.SetLimitSize(arg)
		s.limS = arg
		obs = "ls"
	case op[0] == 'W':
		s.seq++
		p := pktBytes(s.seq, arg)
		if arg == 0 && s.seq%2 == 1 {
			p = nil // the empty packet spelled as a nil slice (every other one): still one packet
		}
		keep := append([]byte(nil), p...)
		n, err := s.b.Write(p)
		for i := range p {
			p[i] = 0xEE // the writer reuses its slice immediately
		}
		ec := errClass(err)
		obs = "w:" + ec
		// what the model requires
		must, mustNot := false, false // must accept / must refuse
		switch {
		case arg >= 0x10000 || s.closed:
			mustNot = true
		case s.limC > 0 && len(s.q) >= s.limC:
			mustNot = true
		case s.limS > 0:
			if s.size()+2+arg > s.limS {
				mustNot = true
			} else {
				must = true
			}
		default:
			if s.size()+2+arg > bufCap4M {
				mustNot = true
			} else if s.size()+2+arg < bufCap4M {
				must = true
			} // == 4 MiB: the one-byte band the property leaves open
		}
		accepted := err == nil
		if accepted && n != arg {
			return obs, s.mode + " write-count", fmt.Sprintf("Write of %d bytes returned n=%d", arg, n)
		}
		if mustNot && accepted {
			if arg >= 0x10000 || s.closed {
				if c06 {
					return obs, "C06 accepted-forbidden-write", fmt.Sprintf("Write(%d bytes) accepted although closed=%v / oversize", arg, s.closed)
				}
			} else if !c06 {
				return obs, "C07 limit-not-enforced", fmt.Sprintf("Write(%d bytes) accepted with count=%d size=%d limitCount=%d limitSize=%d", arg, len(s.q), s.size(), s.limC, s.limS)
			}
		}
		if must && !accepted {
			if !c06 {
				return obs, "C07 refused-fitting-write", fmt.Sprintf("Write(%d bytes) refused (%v) with count=%d size=%d limitCount=%d limitSize=%d", arg, err, len(s.q), s.size(), s.limC, s.limS)
			}
		}
		if !c06 && !accepted && !(arg >= 0x10000 || s.closed) && ec != "full" {
			return obs, "C07 wrong-error", fmt.Sprintf("refused Write returned %v, want ErrFull", err)
		}
		if accepted {
			s.q = append(s.q, keep)
			s.sizeBytes += 2 + arg
		} else {
			s.refused = true
		}
	case op[0] == 'R':
		if cap(s.scratch) < arg+8 {
			s.scratch = make([]byte, arg+8)
		}
		buf := s.scratch[:arg+8]
		for i := range buf {
			buf[i] = 0xCD
		}
		n, err := s.b.Read(buf[4 : 4+arg])
		ec := errClass(err)
		obs = "r:" + ec
		contentSig := "C06 "
		report := c06
		if !c06 && s.refused {
			contentSig, report = "C07 after-refusal ", true
		}
		if len(s.q) == 0 {
			if ec != "eof" && report {
				return obs, contentSig + "read-on-closed-empty", fmt.Sprintf("Read on closed empty buffer returned n=%d err=%v", n, err)
			}
			break
		}
		p := s.q[0]
		s.q = s.q[1:]
		s.sizeBytes -= 2 + len(p)
		want := len(p)
		wantErr := "ok"
		if arg < len(p) {
			want, wantErr = arg, "short"
		}
		if report {
			if n != want || ec != wantErr {
				return obs, contentSig + "read-result", fmt.Sprintf("Read(into %d bytes) of a %d-byte packet returned n=%d err=%v, want n=%d %s", arg, len(p), n, err, want, wantErr)
			}
			if !bytes.Equal(buf[4:4+want], p[:want]) {
				return obs, contentSig + "read-bytes", fmt.Sprintf("Read returned wrong bytes for a %d-byte packet (first diff at %d)", len(p), firstDiff(buf[4:4+want], p[:want]))
			}
			for i := 0; i < 4; i++ {
				if buf[i] != 0xCD || buf[4+arg+i] != 0xCD {
					return obs, contentSig + "read-overrun", "Read wrote outside the destination slice"
				}
			}
			for i := want; i < arg; i++ {
				if buf[4+i] != 0xCD {
					return obs, contentSig + "read-overrun", fmt.Sprintf("Read of a %d-byte packet modified destination byte %d", len(p), i)
				}
			}
		}
	}
	// occupancy after every operation
	if !c06 {
		if cnt := s.b.Count(); cnt != len(s.q) {
			return obs, "C07 count", fmt.Sprintf("after %s: Count()=%d, model %d", op, cnt, len(s.q))
		}
		if sz := s.b.Size(); sz != s.size() {
			return obs, "C07 size", fmt.Sprintf("after %s: Size()=%d, model %d", op, sz, s.size())
		}
	}
	return obs, "", ""
}

func firstDiff(a, b []byte) int {
	for i := range a {
		if a[i] != b[i] {
			return i
		}
	}
	return -1
}

func (s *bufSys) Key() stateKey {
	return dumpKey([]string{"hb", "readDeadline", "notify"}, s.b, len(s.q), s.limC, s.limS, s.closed, s.refused)
}

// drain reads everything back and compares (used at the end of parameterised histories).
func (s *bufSys) drain(readLen int) (sig, msg string) {
	for len(s.q) > 0 {
		if _, sig, msg = s.Apply("R" + strconv.Itoa(readLen)); sig != "" {
			return
		}
	}
	return "", ""
}

// runHist applies ops; returns the violation (if any) and the history executed.
func (s *bufSys) runHist(ops []string) (string, string, []string) {
	for i, op := range ops {
		if op[0] == 'R' && len(s.q) == 0 && !s.closed {
			continue
		}
		if _, sig, msg := s.Apply(op); sig != "" {
			return sig, msg, ops[:i+1]
		}
	}
	return "", "", ops
}

func ringFor(x int) int {
	n := 2048
	for x+3 > n {
		n *= 2
	}
	return n
}

func growthSizes() []int {
	var out []int
	n := 2048
	for n < 128*1024 {
		out = append(out, n)
		n *= 2
	}
	for n < bufCap4M {
		out = append(out, n)
		n = 5 * n / 4
	}
	out = append(out, bufCap4M)
	return out
}

func runBuf(mode, tier string, shard, shards int, rep *SeqReport) {
	var lastOp string
	var curHist string
	done := false
	body := func() {
		runBufBody(mode, tier, shard, shards, rep, &lastOp, &curHist)
		done = true
	}
	ex := zzvsched.Run(zzvsched.Config{MaxSteps: 1 << 62, Horizon: 1000 * time.Hour}, body)
	if len(ex.Panics) > 0 {
		rep.violate("buffer", mode+" panic", "panic: "+ex.Panics[0].Value+"\n"+ex.Panics[0].Stack, curHist+" ... "+lastOp)
		return
	}
	if !done {
		rep.violate("buffer", mode+" operation-blocked", "a buffer operation blocked although the model says it can complete (parked: "+fmt.Sprint(ex.Parked)+")", curHist+" ... "+lastOp)
	}
}

func runBufBody(mode, tier string, shard, shards int, rep *SeqReport, lastOp, curHist *string) {
	thorough := tier == "thorough"
	unit := 0
	mine := func() bool { unit++; return (unit-1)%shards == shard }
	mk := func(alpha []string) *bufSys { return newBufSys(mode, alpha, lastOp) }
	hist := func(fam string, s *bufSys, ops []string) {
		*curHist = fam + ": " + strings.Join(ops, "; ")
		sig, msg, h := s.runHist(ops)
		rep.Evaluations++
		rep.Transitions += int64(len(h))
		rep.States++
		if sig != "" {
			rep.violate(fam, sig, msg, strings.Join(h, "; "))
		}
	}

	// (a) head / tail / header at every offset relative to the ring end
	step := 1
	if !thorough {
		step = 1
	}
	for x := 0; x <= 4096; x += step {
		if !mine() {
			continue
		}
		if seqExpired() {
			rep.Truncated = true
			return
		}
		N := ringFor(x)
		edges := []int{0, 1, 2, 3}
		for d := -7; d <= 1; d++ {
			if y := N - x + d; y >= 0 {
				edges = append(edges, y)
			}
		}
		var n int64
		for _, y := range edges {
			// z: around the space that is left once x has been read
			zs := []int{0, 1, 2, 3, 7}
			for d := -6; d <= 2; d++ {
				if z := N - (y + 2) + d; z >= 0 && z < 65536 {
					zs = append(zs, z)
				}
				if z := N - (x + y + 4) + d; z >= 0 && z < 65536 {
					zs = append(zs, z)
				}
			}
			for _, z := range zs {
				for _, rl := range []int{70000, 1, 1000, 20} {
					// short reads: 1 byte, and lengths whose copied part can cross the ring end
					if rl != 70000 && !thorough && (z+y+rl)%3 != 0 {
						continue
					}
					s := mk(nil)
					ops := []string{"W" + strconv.Itoa(x), "W" + strconv.Itoa(y), "R" + strconv.Itoa(rl), "W" + strconv.Itoa(z),
						"R" + strconv.Itoa(rl), "W5", "R" + strconv.Itoa(rl), "R" + strconv.Itoa(rl), "R70000"}
					hist("ring-edge", s, ops)
					n++
				}
			}
		}
		rep.family("ring-edge", n)
		if x == 2040 {
			rep.sample(fmt.Sprintf("ring-edge: W%d; W(y); R; W(z); R; W5; R; R; R for y in %v, z around the free space", x, edges))
		}
	}

	// (b) every growth step crossed with 0, 1, 2 packets present, contiguous and wrapped
	for gi, g := range growthSizes() {
		if !mine() {
			continue
		}
		var n int64
		for _, headOff := range []int{0, 1, 2, 1000, g/2 + 1, g - 9, g - 4, g - 3, g - 2} {
			if headOff >= g-8 && headOff > 0 && g-8 < 0 {
				continue
			}
			for present := 0; present <= 2; present++ {
				for _, big := range []int{g - 2, g, g + 1, g/4 + 3} {
					if big >= 65536 {
						big = 65535
					}
					s := mk(nil)
					var ops []string
					// bring the ring to size g: fill with 60000-byte packets, then read all but a marker
					fill := g - 16
					if headOff > 0 {
						fill = headOff - 2 - 2
						if fill < 0 {
							fill = 0
						}
					}
					// reach ring size g first
					remaining := g - 8
					cnt := 0
					for remaining > 0 {
						k := remaining
						if k > 60000 {
							k = 60000
						}
						ops = append(ops, "W"+strconv.Itoa(k))
						remaining -= k + 2
						cnt++
					}
					ops = append(ops, "W1") // marker keeps head/tail from being reset
					for i := 0; i < cnt; i++ {
						ops = append(ops, "R70000")
					}
					// now head is near the ring end (wrapped region follows); add `present` packets
					for i := 0; i < present; i++ {
						ops = append(ops, "W"+strconv.Itoa(7+i+headOff%50))
					}
					_ = fill
					// the write that must grow the ring (several times if need be)
					free := g
					for k := 0; k*60000 < free; k++ {
						ops = append(ops, "W"+strconv.Itoa(big))
					}
					ops = append(ops, "W3")
					for i := 0; i < 80; i++ {
						ops = append(ops, "R70000")
					}
					hist("growth", s, ops)
					n++
				}
			}
		}
		// deep wrap: head in the middle of the ring, a third of it wrapped, then growth
		// (a +25% step gains less room than the wrapped part occupies)
		for _, frac := range []int{3, 5} {
			for _, big := range []int{g / 8, g/4 + 3, 60000} {
				if big >= 65536 {
					big = 65535
				}
				if big < 1 {
					big = 1
				}
				s := mk(nil)
				var ops []string
				chunk := g / 16
				if chunk > 60000 {
					chunk = 60000
				}
				if chunk < 8 {
					chunk = 8
				}
				cnt := 0
				for used := 0; used+chunk+2 < g-4; used += chunk + 2 {
					ops = append(ops, "W"+strconv.Itoa(chunk))
					cnt++
				}
				// free the first frac/8 of the ring, then wrap new data into it
				rd := cnt * frac / 8
				for i := 0; i < rd; i++ {
					ops = append(ops, "R70000")
				}
				for i := 0; i < rd-1; i++ {
					ops = append(ops, "W"+strconv.Itoa(chunk))
				}
				// now force growth while wrapped
				for k := 0; k < 6; k++ {
					ops = append(ops, "W"+strconv.Itoa(big))
				}
				for i := 0; i < 2*cnt+10; i++ {
					ops = append(ops, "R70000")
				}
				hist("growth-deep-wrap", s, ops)
				n++
			}
		}
		// a size limit slightly above the ring, raised by a small amount while the ring is wrapped
		if g <= 8192 {
			s := mk(nil)
			ops := []string{"LS" + strconv.Itoa(g-1)}
			chunk := g / 8
			for used := 0; used+chunk+2 <= g-1; used += chunk + 2 {
				ops = append(ops, "W"+strconv.Itoa(chunk))
			}
			ops = append(ops, "R70000", "R70000", "R70000", "W"+strconv.Itoa(chunk), "W"+strconv.Itoa(chunk),
				"LS"+strconv.Itoa(g+chunk/2), "W"+strconv.Itoa(chunk/4), "LS"+strconv.Itoa(g+3*chunk), "W"+strconv.Itoa(chunk), "W"+strconv.Itoa(chunk))
			for i := 0; i < 24; i++ {
				ops = append(ops, "R70000")
			}
			hist("growth-limit-raised", s, ops)
			n++
		}
		rep.family("growth", n)
		if gi == 3 {
			rep.sample(fmt.Sprintf("growth: fill ring to %d, keep a marker, read the rest, write %d-byte packets until the ring has grown, read everything back", g, g+1))
		}
	}

	// (c) BFS over a small alphabet from base states (near-wrap, just-grown, limited)
	alpha := []string{"W0", "W1", "W2040", "W2044", "W2045", "R0", "R1", "R1000", "R70000", "LC0", "LC2", "LS0", "LS2049", "LS4100", "Close"}
	depth := 5
	if thorough {
		depth = 6
		alpha = append(alpha, "W65535", "W65536", "LC1", "LS1", "LS2")
	}
	bases := [][]string{nil, {"W2000", "W30", "R70000"}, {"W2040", "W1", "R70000"}, {"W3000", "W1000", "R70000"}, {"LS2048", "W2040"}, {"LC2", "W1"}}
	for _, base := range bases {
		if !mine() {
			continue
		}
		base := base
		*curHist = "bfs from " + strings.Join(base, "; ")
		r := bfs("bfs "+strings.Join(base, ","), func() seqSystem { return mk(alpha) }, base, depth, 250000, rep)
		rep.family("bfs", r.transitions)
	}

	// (d) limits approached from below with every packet length
	limits := []int{1, 2, 3, 2047, 2048, 2049, 2050, 4095, 4096, 4097, 4098, 131071, 131072, 131073, bufCap4M - 1, bufCap4M, bufCap4M + 1, bufCap4M + 4096, 0}
	for _, L := range limits {
		if !mine() {
			continue
		}
		eff := L
		if L == 0 {
			eff = bufCap4M
		}
		var n int64
		for _, headOff := range []int{0, 777} {
			for r := 0; r <= 12; r++ { // space left below the limit before the probe
				for dl := -4; dl <= 2; dl++ { // probe length relative to what fits
					probe := r - 2 + dl
					if probe < 0 || probe >= 65536 {
						continue
					}
					target := eff - r
					if target < 0 {
						continue
					}
					s := mk(nil)
					var ops []string
					if L != 0 {
						ops = append(ops, "LS"+strconv.Itoa(L))
					}
					occ := 0
					if headOff > 0 && target > headOff+40 {
						// shift the head: a packet that is read again while a marker stays
						ops = append(ops, "W"+strconv.Itoa(headOff), "W1", "R70000")
						occ = 3
					}
					for target-occ >= 2 {
						k := target - occ - 2
						if k > 65535 {
							k = 65535
							if target-occ-2-k == 1 { // never leave exactly 1 byte (no packet is 1+... fits)
								k--
							}
						}
						ops = append(ops, "W"+strconv.Itoa(k))
						occ += k + 2
					}
					if occ != target {
						continue
					}
					ops = append(ops, "W"+strconv.Itoa(probe), "W0", "R70000", "R70000", "W"+strconv.Itoa(probe))
					for i := 0; i < 70; i++ {
						ops = append(ops, "R1")
					}
					hist("limit", s, ops)
					n++
				}
			}
		}
		rep.family("limit", n)
		if L == 2049 {
			rep.sample("limit: LS2049; fill to 2049-r bytes; W(probe) for r in 0..12 and probe around r-2; W0; R; R; W(probe); drain")
		}
	}
	// the ring grows beyond the 4 MiB default cap under a larger size limit, then the limit is
	// removed or lowered: nothing already buffered may be lost and the cap governs new writes
	for _, after := range []int{0, bufCap4M + 4096, 100000} {
		if !mine() {
			continue
		}
		s := mk(nil)
		ops := []string{"LS" + strconv.Itoa(8*1024*1024)}
		for occ := 0; occ < 5*1024*1024; occ += 60002 {
			ops = append(ops, "W60000")
		}
		ops = append(ops, "R70000", "R70000", "W60000", "LS"+strconv.Itoa(after), "W60000", "W1", "R70000", "W0")
		for i := 0; i < 100; i++ {
			ops = append(ops, "R70000")
		}
		hist("limit-removed-after-growth", s, ops)
		rep.family("limit", 1)
	}
	// count limits with mixed sizes, changed at every point
	if mine() {
		alphaC := []string{"W0", "W9", "R70000", "LC1", "LC2", "LC3", "LC0"}
		r := bfs("bfs count-limit", func() seqSystem { return mk(alphaC) }, nil, depth+1, 250000, rep)
		rep.family("bfs", r.transitions)
	}
}

func init() {
	assume := []string{"payload bytes are position- and sequence-dependent tags", "ring constants are the real ones (2048 / 128 KiB / 4 MiB), not scaled down",
		"the one-byte band at the 4 MiB cap is unconstrained"}
	register(&Check{ID: "C06", Seq: func(t string, k, n int, r *SeqReport) { runBuf("C06", t, k, n, r) },
		Scenarios:   nil,
		Rule:        "every history W(x) W(y) R W(z) R W R R for x in 0..4096 and y, z from the sets that put head, tail and the 2-byte header on every offset around the ring end; every growth step 2048*2^k..128 KiB, x1.25..4 MiB crossed with 0/1/2 packets present (wrapped); BFS depth 5/6 over {W(0,1,edge sizes), R(0,1,big), limits, Close} from near-wrap / just-grown / limited base states merged on a reflective dump of the buffer; every Read is compared byte-for-byte (with guard bytes) with a FIFO model",
		Assumptions: assume})
	register(&Check{ID: "C07", Seq: func(t string, k, n int, r *SeqReport) { runBuf("C07", t, k, n, r) },
		Rule:        "same histories as C06 plus, for each size limit in {1,2,3,2047..2050,4095..4098,131071..131073,4MiB-1..4MiB+1,4MiB+4096,unset}, occupancy brought to limit-r (r in 0..12, two head offsets) and probed with every packet length around the threshold, and BFS over count limits changed at every point; Count() and Size() are compared with the model after every operation and every accept/refuse decision with the exact rule",
		Assumptions: assume})
}

// ---------------------------------------------------------------- concurrent part of C06 (SCHED)

func c06concurrent(sizes [][]int, reader bool, bound int, yieldOnRelease ...bool) *explore.Scenario {
	name := fmt.Sprintf("buffer writers=%v", sizes)
	if reader {
		name += " +reader"
	}
	sc := &explore.Scenario{Name: name, Bound: bound}
	sc.Cfg.Horizon = time.Second
	if len(yieldOnRelease) > 0 && yieldOnRelease[0] {
		sc.Name += ", yield after unlock"
		sc.Cfg.YieldOnRelease = true
	}
	total := 0
	for _, w := range sizes {
		total += len(w)
	}
	mk := func(w, k, n int) []byte {
		p := make([]byte, n)
		for i := range p {
			p[i] = byte(w*101 + k*37 + i*3 + 1)
		}
		if n > 1 {
			p[0], p[1] = byte(w), byte(k)
		}
		return p
	}
	sc.Make = func() (func(), func(*zzvsched.Exec) (string, *explore.Violation)) {
		var got [][]byte
		var errs []string
		body := func() {
			b := packetio.NewBuffer()
			for w, ss := range sizes {
				w, ss := w, ss
				zzvsched.GoNamed(fmt.Sprintf("writer%d", w), func() {
					for k, n := range ss {
						p := mk(w, k, n)
						if _, err := b.Write(p); err != nil {
							errs = append(errs, err.Error())
						}
						for i := range p {
							p[i] = 0xEE
						}
					}
				})
			}
			read := func() {
				for i := 0; i < total; i++ {
					buf := make([]byte, 70000)
					n, err := b.Read(buf)
					if err != nil {
						errs = append(errs, "read: "+err.Error())
						return
					}
					got = append(got, buf[:n])
				}
			}
			if reader {
				zzvsched.GoNamed("reader", read)
			} else {
				zzvsched.WaitIdle()
				read()
			}
		}
		check := func(ex *zzvsched.Exec) (string, *explore.Violation) {
			var order []string
			for _, g := range got {
				if len(g) > 1 {
					order = append(order, fmt.Sprintf("w%dp%d", g[0], g[1]))
				} else {
					order = append(order, "?")
				}
			}
			out := strings.Join(order, ",")
			if len(ex.Panics) > 0 {
				return out, &explore.Violation{Sig: "C06 panic", Msg: name + ": panic: " + ex.Panics[0].Value + "\n" + ex.Panics[0].Stack}
			}
			if len(errs) > 0 {
				return out, &explore.Violation{Sig: "C06 concurrent-error", Msg: name + ": " + strings.Join(errs, "; ")}
			}
			if ex.HorizonHit {
				return out + " HORIZON", nil
			}
			if len(got) != total {
				return out, &explore.Violation{Sig: "C06 concurrent-lost", Msg: fmt.Sprintf("%s: %d packets were written but only %d could be read (%v); parked: %v", name, total, len(got), order, ex.Parked)}
			}
			next := make([]int, len(sizes))
			for _, g := range got {
				if len(g) < 2 || int(g[0]) >= len(sizes) {
					return out, &explore.Violation{Sig: "C06 concurrent-corrupt", Msg: fmt.Sprintf("%s: a read returned %d bytes that match no written packet", name, len(g))}
				}
				w, k := int(g[0]), int(g[1])
				if k != next[w] || k >= len(sizes[w]) {
					return out, &explore.Violation{Sig: "C06 concurrent-order", Msg: fmt.Sprintf("%s: packets of writer %d were read out of order or twice: %v", name, w, order)}
				}
				next[w]++
				if want := mk(w, k, sizes[w][k]); !bytes.Equal(g, want) {
					return out, &explore.Violation{Sig: "C06 concurrent-corrupt", Msg: fmt.Sprintf("%s: packet %d of writer %d (%d bytes) was read as %d bytes, first difference at %d", name, k, w, len(want), len(g), firstDiff(g, want))}
				}
			}
			return out, nil
		}
		return body, check
	}
	return sc
}

// c06fullRing: a size-limited ring that is (nearly) full, so that a write re-uses the very bytes a
// concurrent read has just released.  The scheduler also yields right after every unlock
// (Cfg.YieldOnRelease): what a call does after giving up the lock is interleaved with the other thread.
// Writes that find the ring full are refused (ErrFull) and are then not expected back.
func c06fullRing(limit int, prefill, wr []int, bound int) *explore.Scenario {
	name := fmt.Sprintf("buffer limit=%d prefilled %v, reader vs writer %v, yield after unlock", limit, prefill, wr)
	sc := &explore.Scenario{Name: name, Bound: bound}
	sc.Cfg.Horizon = time.Second
	sc.Cfg.YieldOnRelease = true
	mk := func(k, n int) []byte {
		p := make([]byte, n)
		for i := range p {
			p[i] = byte(k*53 + i*7 + 1)
		}
		p[0] = byte(k)
		return p
	}
	sc.Make = func() (func(), func(*zzvsched.Exec) (string, *explore.Violation)) {
		var got [][]byte
		var accepted []int // packet numbers accepted, in order (single writer after the prefill)
		var errs []string
		body := func() {
			b := packetio.NewBuffer()
			b.SetLimitSize(limit)
			for k, n := range prefill {
				if _, err := b.Write(mk(k, n)); err != nil {
					errs = append(errs, "prefill: "+err.Error())
					return
				}
				accepted = append(accepted, k)
			}
			zzvsched.GoNamed("writer", func() {
				for i, n := range wr {
					k := len(prefill) + i
					_, err := b.Write(mk(k, n))
					switch {
					case err == nil:
						accepted = append(accepted, k)
					case errors.Is(err, packetio.ErrFull):
					default:
						errs = append(errs, err.Error())
					}
				}
			})
			zzvsched.GoNamed("reader", func() {
				for i := 0; i < len(prefill); i++ {
					buf := make([]byte, 64)
					n, err := b.Read(buf)
					if err != nil {
						errs = append(errs, "read: "+err.Error())
						return
					}
					got = append(got, buf[:n])
				}
			})
			zzvsched.WaitIdle()
			for b.Count() > 0 {
				buf := make([]byte, 64)
				n, err := b.Read(buf)
				if err != nil {
					errs = append(errs, "drain: "+err.Error())
					return
				}
				got = append(got, buf[:n])
			}
		}
		check := func(ex *zzvsched.Exec) (string, *explore.Violation) {
			out := fmt.Sprintf("accepted=%v", accepted)
			if len(ex.Panics) > 0 {
				return out, &explore.Violation{Sig: "C06 panic", Msg: name + ": panic: " + ex.Panics[0].Value + "\n" + ex.Panics[0].Stack}
			}
			if len(errs) > 0 {
				return out, &explore.Violation{Sig: "C06 concurrent-error", Msg: name + ": " + strings.Join(errs, "; ")}
			}
			if ex.HorizonHit {
				return out + " HORIZON", nil
			}
			if len(got) != len(accepted) {
				return out, &explore.Violation{Sig: "C06 concurrent-lost", Msg: fmt.Sprintf("%s: packets %v were accepted but %d were read; parked: %v", name, accepted, len(got), ex.Parked)}
			}
			all := append(append([]int{}, prefill...), wr...)
			for i, g := range got {
				k := accepted[i]
				if want := mk(k, all[k]); !bytes.Equal(g, want) {
					return out, &explore.Violation{Sig: "C06 concurrent-corrupt", Msg: fmt.Sprintf("%s: read #%d should be packet %d (%d bytes) but returned %d bytes, first difference at %d", name, i+1, k, len(want), len(g), firstDiff(g, want))}
				}
			}
			return out, nil
		}
		return body, check
	}
	return sc
}

// c06readers: several readers take packets from one buffer at the same time (one writer after a prefill):
// every packet is returned to exactly one reader, intact; each reader sees increasing packet numbers.
func c06readers(readers, perReader int, prefill, wr []int, bound int, closer ...bool) *explore.Scenario {
	name := fmt.Sprintf("buffer prefilled %v, %d readers x %d reads vs writer %v", prefill, readers, perReader, wr)
	withClose := len(closer) > 0 && closer[0]
	if withClose {
		name += ", closed by a third thread"
	}
	shortReader := len(closer) > 1 && closer[1]
	if shortReader {
		name += ", reader 0 with a 4-byte slice"
	}
	sc := &explore.Scenario{Name: name, Bound: bound}
	sc.Cfg.Horizon = time.Second
	sc.Cfg.YieldOnRelease = true
	all := append(append([]int{}, prefill...), wr...)
	mk := func(k, n int) []byte {
		p := make([]byte, n)
		for i := range p {
			p[i] = byte(k*53 + i*7 + 1)
		}
		p[0] = byte(k)
		return p
	}
	sc.Make = func() (func(), func(*zzvsched.Exec) (string, *explore.Violation)) {
		got := make([][][]byte, readers+1) // per reader; last = drained by main at the end
		refused := map[int]bool{}          // writes refused because the buffer had been closed
		var errs []string
		body := func() {
			b := packetio.NewBuffer()
			for k, n := range prefill {
				_, _ = b.Write(mk(k, n))
			}
			zzvsched.GoNamed("writer", func() {
				for i, n := range wr {
					if _, err := b.Write(mk(len(prefill)+i, n)); err != nil {
						if withClose && errors.Is(err, io.ErrClosedPipe) {
							refused[len(prefill)+i] = true
							continue
						}
						errs = append(errs, err.Error())
					}
				}
			})
			if withClose {
				// Close at any point: what was written before stays readable, nothing is handed out twice
				zzvsched.GoNamed("closer", func() { _ = b.Close() })
			}
			for r := 0; r < readers; r++ {
				r := r
				zzvsched.GoNamed(fmt.Sprintf("reader%d", r), func() {
					for i := 0; i < perReader; i++ {
						buf := make([]byte, 4096)
						if shortReader && r == 0 {
							buf = buf[:4]
						}
						n, err := b.Read(buf)
						if shortReader && r == 0 && errors.Is(err, io.ErrShortBuffer) {
							// a cut read: the leading bytes, and the whole packet is consumed
							got[r] = append(got[r], append([]byte{0xFF}, buf[:n]...))
							continue
						}
						if err != nil {
							if withClose && errors.Is(err, io.EOF) {
								return
							}
							errs = append(errs, "read: "+err.Error())
							return
						}
						got[r] = append(got[r], buf[:n])
					}
				})
			}
			zzvsched.WaitIdle()
			for b.Count() > 0 {
				buf := make([]byte, 4096)
				n, err := b.Read(buf)
				if err != nil {
					errs = append(errs, "drain: "+err.Error())
					return
				}
				got[readers] = append(got[readers], buf[:n])
			}
		}
		check := func(ex *zzvsched.Exec) (string, *explore.Violation) {
			var parts []string
			for _, g := range got {
				s := ""
				for _, p := range g {
					if len(p) > 0 {
						s += fmt.Sprintf("%d ", p[0])
					} else {
						s += "? "
					}
				}
				parts = append(parts, s)
			}
			out := strings.Join(parts, "| ")
			if len(ex.Panics) > 0 {
				return out, &explore.Violation{Sig: "C06 panic", Msg: name + ": panic: " + ex.Panics[0].Value + "\n" + ex.Panics[0].Stack}
			}
			if len(errs) > 0 {
				return out, &explore.Violation{Sig: "C06 concurrent-error", Msg: name + ": " + strings.Join(errs, "; ")}
			}
			if ex.HorizonHit {
				return out + " HORIZON", nil
			}
			seen := map[int]int{}
			for r, g := range got {
				last := -1
				for _, p := range g {
					cut := false
					if len(p) > 0 && p[0] == 0xFF { // marker of a cut read (packet tags are small numbers)
						cut, p = true, p[1:]
					}
					if len(p) == 0 || int(p[0]) >= len(all) {
						return out, &explore.Violation{Sig: "C06 concurrent-corrupt", Msg: fmt.Sprintf("%s: a read returned %d bytes that match no written packet", name, len(p))}
					}
					k := int(p[0])
					if want := mk(k, all[k]); cut && !(len(want) > len(p) && bytes.Equal(p, want[:len(p)])) {
						return out, &explore.Violation{Sig: "C06 concurrent-corrupt", Msg: fmt.Sprintf("%s: a cut read returned % x, not the leading bytes of packet %d", name, p, k)}
					} else if !cut && !bytes.Equal(p, want) {
						return out, &explore.Violation{Sig: "C06 concurrent-corrupt", Msg: fmt.Sprintf("%s: packet %d (%d bytes) was read as %d bytes, first difference at %d", name, k, len(want), len(p), firstDiff(p, want))}
					}
					seen[k]++
					if seen[k] > 1 {
						return out, &explore.Violation{Sig: "C06 concurrent-duplicate", Msg: fmt.Sprintf("%s: packet %d was returned %d times (per reader: %s)", name, k, seen[k], out)}
					}
					if k < last {
						return out, &explore.Violation{Sig: "C06 concurrent-order", Msg: fmt.Sprintf("%s: reader %d obtained packet %d after packet %d", name, r, k, last)}
					}
					last = k
				}
			}
			// readers still waiting are fine only if they were outnumbered; every written packet must have been returned
			for k := range refused {
				if seen[k] > 0 {
					return out, &explore.Violation{Sig: "C06 concurrent-corrupt", Msg: fmt.Sprintf("%s: packet %d was refused (closed) and yet returned by a read", name, k)}
				}
			}
			if len(seen)+len(refused) != len(all) {
				return out, &explore.Violation{Sig: "C06 concurrent-lost", Msg: fmt.Sprintf("%s: %d packets written, %d returned (%s); parked: %v", name, len(all), len(seen), out, ex.Parked)}
			}
			return out, nil
		}
		return body, check
	}
	return sc
}

func init() {
	c := registry["C06"]
	c.Scenarios = func(tier string) []*explore.Scenario {
		b := 2
		if tier == "thorough" {
			b = 3
		}
		return []*explore.Scenario{
			c06concurrent([][]int{{1500, 900}, {1200, 700}}, true, b),
			c06concurrent([][]int{{1500, 900}, {1200, 700}}, false, b),
			c06concurrent([][]int{{2, 3000}, {2040, 5}}, true, b),
			// a large backlog: the ring grows past 128 KiB while a reader is active
			c06concurrent([][]int{{60000, 60000, 60000, 9}}, true, b, true),
			c06fullRing(40, []int{16, 16}, []int{16, 10}, b),
			c06fullRing(40, []int{10, 10, 10}, []int{20, 3}, b),
			c06readers(2, 1, []int{9}, nil, b),
			c06readers(2, 1, []int{9}, []int{7}, b),
			c06readers(3, 1, []int{9, 5}, []int{7}, b),
			c06readers(2, 2, []int{9}, []int{7, 1500, 3}, b),
			c06readers(2, 2, []int{9, 5}, []int{7}, b, true),
			c06readers(2, 2, []int{9, 12}, []int{7, 30}, b, false, true),
		}
	}
	c.Rule += "; concurrently: 2 writers x 2 packets whose sizes force the ring to grow, with and without a concurrent reader, every interleaving within the preemption bound: the read sequence must be a merge of the writers' sequences, byte-identical; a full size-limited ring (41 bytes) with a reader and a writer whose packets re-use the bytes just released, with a scheduling point after every unlock; a 180 KB backlog growing the ring past 128 KiB beside a reader; 2-3 concurrent readers (one of them optionally with a slice shorter than the packets) on a buffer holding fewer packets than there are readers (each packet to exactly one reader)"
}
