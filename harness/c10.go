package main

import (
	"context"
	"errors"
	"fmt"
	"net"
	"os"
	"strings"
	"time"

	"github.com/pion/transport/v3/dpipe"
	"github.com/pion/transport/v3/packetio"
	ttest "github.com/pion/transport/v3/test"
	"github.com/pion/transport/v3/udp"
	"github.com/pion/transport/v3/vnet"
	"github.com/pion/transport/v3/zzvsched"
	"github.com/pion/transport/v3/zzvsched/fakenet"
	"verifharness/explore"

	"github.com/pion/logging"
)

// C10 — read deadlines of the five connection types.

type rdConn struct {
	kind    string
	setD    func(time.Time) error // SetDeadline (read and write side), nil if the type has none
	setRD   func(time.Time) error
	read    func([]byte) (int, error)
	deliver func(p []byte)
	cleanup func()
	inRead  int
}

func isTimeout(err error) bool {
	if err == nil {
		return false
	}
	var ne net.Error
	if errors.As(err, &ne) && ne.Timeout() {
		return true
	}
	return errors.Is(err, context.DeadlineExceeded) || errors.Is(err, os.ErrDeadlineExceeded)
}

var c10kinds = []string{"buffer", "dpipe", "udpconn", "vnet-loopback", "vnet-routed", "bridge"}

func mkRdConn(kind string) *rdConn {
	switch kind {
	case "buffer":
		b := packetio.NewBuffer()
		return &rdConn{kind: kind, setRD: b.SetReadDeadline, read: b.Read, deliver: func(p []byte) { _, _ = b.Write(p) }}
	case "dpipe":
		c0, c1 := dpipe.Pipe()
		return &rdConn{kind: kind, setD: c0.SetDeadline, setRD: c0.SetReadDeadline, read: c0.Read, deliver: func(p []byte) { _, _ = c1.Write(p) }}
	case "udpconn":
		fakenet.Reset()
		l, err := udp.Listen("udp", &net.UDPAddr{IP: net.IPv4(127, 0, 0, 1), Port: 4000})
		if err != nil {
			panic(err)
		}
		sock := fakenet.Sockets[0]
		remote := &net.UDPAddr{IP: net.IPv4(10, 1, 1, 1), Port: 999}
		sock.Inject(remote, []byte("hello"))
		c, err := l.Accept()
		if err != nil {
			panic(err)
		}
		buf := make([]byte, 32)
		if n, err := c.Read(buf); err != nil || string(buf[:n]) != "hello" {
			panic(fmt.Sprint("udpconn setup: first datagram not readable: ", n, err))
		}
		return &rdConn{kind: kind, setD: c.SetDeadline, setRD: c.SetReadDeadline, read: c.Read, deliver: func(p []byte) { sock.Inject(remote, p) }}
	case "vnet-loopback":
		n, err := vnet.NewNet(&vnet.NetConfig{})
		if err != nil {
			panic(err)
		}
		c, err := n.ListenUDP("udp", &net.UDPAddr{IP: net.IPv4(127, 0, 0, 1), Port: 5000})
		if err != nil {
			panic(err)
		}
		w, err := n.ListenUDP("udp", &net.UDPAddr{IP: net.IPv4(127, 0, 0, 1), Port: 5001})
		if err != nil {
			panic(err)
		}
		dst := &net.UDPAddr{IP: net.IPv4(127, 0, 0, 1), Port: 5000}
		return &rdConn{kind: kind, setD: c.SetDeadline, setRD: c.SetReadDeadline, read: c.Read, deliver: func(p []byte) { _, _ = w.WriteTo(p, dst) }}
	case "vnet-routed":
		r, err := vnet.NewRouter(&vnet.RouterConfig{CIDR: "10.0.0.0/24", LoggerFactory: logging.NewDefaultLoggerFactory()})
		if err != nil {
			panic(err)
		}
		n1, _ := vnet.NewNet(&vnet.NetConfig{StaticIPs: []string{"10.0.0.1"}})
		n2, _ := vnet.NewNet(&vnet.NetConfig{StaticIPs: []string{"10.0.0.2"}})
		if err := r.AddNet(n1); err != nil {
			panic(err)
		}
		if err := r.AddNet(n2); err != nil {
			panic(err)
		}
		if err := r.Start(); err != nil {
			panic(err)
		}
		c, err := n1.ListenUDP("udp", &net.UDPAddr{IP: net.ParseIP("10.0.0.1"), Port: 5000})
		if err != nil {
			panic(err)
		}
		w, err := n2.ListenUDP("udp", &net.UDPAddr{IP: net.ParseIP("10.0.0.2"), Port: 5001})
		if err != nil {
			panic(err)
		}
		dst := &net.UDPAddr{IP: net.ParseIP("10.0.0.1"), Port: 5000}
		return &rdConn{kind: kind, setD: c.SetDeadline, setRD: c.SetReadDeadline, read: c.Read,
			deliver: func(p []byte) { _, _ = w.WriteTo(p, dst); zzvsched.WaitQuiet(time.Microsecond) },
			cleanup: func() { _ = r.Stop() }}
	case "bridge":
		br := ttest.NewBridge()
		c0, c1 := br.GetConn0(), br.GetConn1()
		stop := false
		pending := 0
		var cell uint64
		rc := &rdConn{kind: kind, setD: c0.SetDeadline, setRD: c0.SetReadDeadline}
		// the ticking peer: ticks every millisecond while a message is queued and somebody is in Read
		zzvsched.GoNamed("ticker", func() {
			for {
				zzvsched.Block(&cell, func() bool { return stop || (pending > 0 && rc.inRead > 0) })
				if stop {
					return
				}
				zzvsched.Sleep(time.Millisecond)
				pending -= br.Tick()
			}
		})
		rc.read = func(b []byte) (int, error) {
			rc.inRead++
			defer func() { rc.inRead-- }()
			return c0.Read(b)
		}
		rc.deliver = func(p []byte) { _, _ = c1.Write(p); pending++ }
		rc.cleanup = func() { stop = true }
		return rc
	}
	panic("kind " + kind)
}

// SD(T) = SetDeadline with one fixed absolute time T = start + 150 ms (the same value every time it is used)
var c10ops = []string{"SRD(zero)", "SRD(past)", "SRD(+10ms)", "SRD(+100ms)", "idle(20ms)", "idle(200ms)", "deliver", "Read", "SD(T)", "SRD(+400y)"}

type dlEntry struct {
	at   time.Duration // when the SetReadDeadline call began
	done time.Duration // when it returned
	d    time.Duration // virtual instant, 0 = none
}

// c10scenario: main runs a history chosen by the explorer; with reader=true a
// second thread sits in Read while main acts.
// c10churn: the deadline is changed back and forth (short future / zero / past) and then used, at a higher
// deviation bound than the full alphabet affords: expiry callbacks that are dispatched but have not run yet
// overlap the following Set calls.
var c10churnOps = []string{"SRD(zero)", "SRD(past)", "SRD(+10ms)", "Read"}

func c10scenario(kind string, steps, bound int, reader bool, go123 bool, alphabet ...[]string) *explore.Scenario {
	ops := c10ops
	name := fmt.Sprintf("rd %s %d steps", kind, steps)
	if len(alphabet) > 0 {
		ops = alphabet[0]
		name += fmt.Sprintf(" over %v", ops)
	}
	if reader {
		name += " +blocked-reader"
	}
	if go123 {
		name += " (go1.23 timers)"
	}
	sc := &explore.Scenario{Name: name, Bound: bound}
	sc.Cfg.Horizon = 5 * time.Second
	sc.Cfg.Go123 = go123
	sc.Make = func() (func(), func(*zzvsched.Exec) (string, *explore.Violation)) {
		var viol *explore.Violation
		var script []string
		var outcome []string
		finished := false
		var finalDL time.Duration
		mainInRead, readerInRead := false, false
		inEpilogue := false
		var dls []dlEntry
		avail := 0 // datagrams delivered and not yet read (model)
		fail := func(sig, format string, a ...any) {
			if viol == nil {
				viol = &explore.Violation{Sig: sig, Msg: fmt.Sprintf("%s, history %v: ", kind, script) + fmt.Sprintf(format, a...)}
			}
		}
		// judge one completed Read that ran during [start,end]
		judge := func(who string, start, end time.Duration, n int, err error, settledPast bool) {
			if isTimeout(err) {
				ok := false
				for i, e := range dls {
					// in force during the call: set before the call ended and not replaced before it began
					// (conservatively: until the call that replaced it had returned)
					replacedAt := time.Duration(1<<62 - 1)
					if i+1 < len(dls) {
						replacedAt = dls[i+1].done
						if replacedAt == 0 {
							replacedAt = time.Duration(1<<62 - 1) // that call has not returned yet
						}
					}
					if e.at <= end && replacedAt >= start && e.d != 0 && e.d <= end {
						ok = true
					}
				}
				if !ok {
					fail("C10 early-or-spurious-timeout "+kindClass(kind), "%s Read returned a timeout at %v, but no non-zero read deadline that had passed was in force during the call (deadlines set: %v)", who, end, fmtDls(dls))
				}
				outcome = append(outcome, who+":timeout")
				return
			}
			if err != nil {
				fail("C10 unexpected-error "+kindClass(kind), "%s Read failed with %v", who, err)
				return
			}
			if settledPast {
				fail("C10 read-after-expiry-succeeded "+kindClass(kind), "%s Read returned data (n=%d) although the read deadline in force (%v) had passed before the call began at %v", who, n, fmtDls(dls), start)
			}
			outcome = append(outcome, who+":data")
		}
		body := func() {
			c := mkRdConn(kind)
			cur := func() time.Duration { return dls[len(dls)-1].d }
			dls = append(dls, dlEntry{0, 0, 0})
			setRD := func(t time.Time, d time.Duration) {
				dls = append(dls, dlEntry{at: zzvsched.Elapsed(), d: d})
				_ = c.setRD(t)
				dls[len(dls)-1].done = zzvsched.Elapsed() + 1
			}
			if reader {
				zzvsched.GoNamed("reader", func() {
					for i := 0; i < 2; i++ {
						buf := make([]byte, 32)
						start := zzvsched.Elapsed()
						readerInRead = true
						n, err := c.read(buf)
						readerInRead = false
						end := zzvsched.Elapsed()
						if err == nil {
							avail--
						}
						judge("reader", start, end, n, err, false)
						if err != nil && !isTimeout(err) {
							return
						}
					}
				})
			}
			for i := 0; i < steps; i++ {
				k := zzvsched.Choose(len(ops))
				op := ops[k]
				if op == "Read" && (reader || (avail == 0 && (cur() == 0 || cur() == 1<<62-1))) {
					op = "skip" // would block forever, legitimately
				}
				script = append(script, op)
				switch op {
				case "SRD(zero)":
					if i%2 == 1 {
						setRD(time.Time{}.Local(), 0) // the zero instant spelled with a location: still "no deadline"
					} else {
						setRD(time.Time{}, 0)
					}
				case "SRD(past)":
					t := zzvsched.Now().Add(-time.Millisecond)
					setRD(t, t.Sub(zzvsched.Base))
				case "SRD(+10ms)", "SRD(+100ms)":
					d := 10 * time.Millisecond
					if op == "SRD(+100ms)" {
						d = 100 * time.Millisecond
					}
					t := zzvsched.Now().Add(d)
					setRD(t, t.Sub(zzvsched.Base))
				case "SRD(+400y)":
					// a deadline further away than time.Duration can express
					t := zzvsched.Base.AddDate(400, 0, 0)
					dls = append(dls, dlEntry{at: zzvsched.Elapsed(), d: 1<<62 - 1})
					_ = c.setRD(t)
					dls[len(dls)-1].done = zzvsched.Elapsed() + 1
				case "SD(T)":
					if c.setD == nil {
						script[len(script)-1] = "skip"
						continue
					}
					t := zzvsched.Base.Add(150 * time.Millisecond)
					dls = append(dls, dlEntry{at: zzvsched.Elapsed(), d: t.Sub(zzvsched.Base)})
					_ = c.setD(t)
					dls[len(dls)-1].done = zzvsched.Elapsed() + 1
				case "idle(20ms)":
					zzvsched.SleepIdle(20 * time.Millisecond)
				case "idle(200ms)":
					zzvsched.SleepIdle(200 * time.Millisecond)
				case "deliver":
					avail++
					c.deliver([]byte(fmt.Sprintf("d%d", i)))
				case "Read":
					buf := make([]byte, 32)
					start := zzvsched.Elapsed()
					// required timeout: the deadline in force passed before this call began
					// and everything had settled (the step before was an idle or a set-to-past)
					settled := cur() != 0 && cur() < start && i > 0 && (strings.HasPrefix(script[i-1], "idle") || script[i-1] == "SRD(past)" || script[i-1] == "Read")
					mainInRead = true
					n, err := c.read(buf)
					mainInRead = false
					if err == nil {
						avail--
					}
					judge("main", start, zzvsched.Elapsed(), n, err, settled)
				}
			}
			// epilogue: a datagram that was delivered and never returned by a read must still be there (a read
			// that failed with a timeout consumes nothing)
			if avail > 0 {
				zzvsched.WaitIdle()
			}
			if avail > 0 && !readerInRead { // (a reader still parked in Read is judged at final quiescence)
				// no deadline here: with a finite one a stalled thread could make the read time out legitimately;
				// a lost datagram shows as this read never returning
				setRD(time.Time{}, 0)
				inEpilogue = true
				for avail > 0 {
					mainInRead = true
					_, err := c.read(make([]byte, 32))
					mainInRead = false
					if err != nil {
						fail("C10 datagram-lost "+kindClass(kind), "%d datagram(s) were delivered and never returned by a read, yet a read without deadline failed (%v)", avail, err)
						break
					}
					avail--
				}
				inEpilogue = false
			}
			finished = true
			finalDL = cur()
			// no cleanup: the liveness side is judged at final quiescence (every timer
			// within the horizon fired, every helper thread parked)
		}
		check := func(ex *zzvsched.Exec) (string, *explore.Violation) {
			out := strings.Join(script, ",") + " -> " + strings.Join(outcome, ",")
			if len(ex.Panics) > 0 {
				return out, &explore.Violation{Msg: fmt.Sprintf("%s, history %v: panic: %s\n%s", kind, script, ex.Panics[0].Value, ex.Panics[0].Stack), Sig: "C10 panic " + kindClass(kind)}
			}
			if viol != nil {
				return out, viol
			}
			if !finished {
				if inEpilogue {
					return out, &explore.Violation{Sig: "C10 datagram-lost " + kindClass(kind),
						Msg: fmt.Sprintf("%s, history %v: %d datagram(s) were delivered and never returned by a read, yet a final read without deadline finds nothing and blocks: a read that fails with a timeout must not consume data", kind, script, avail)}
				}
				if mainInRead {
					return out, &explore.Violation{Sig: "C10 read-blocks-after-expiry " + kindClass(kind),
						Msg: fmt.Sprintf("%s, history %v: Read never returned although a non-zero read deadline (%v) was in force: a passed deadline must keep failing reads with a timeout", kind, script, fmtDls(dls))}
				}
				if ex.HorizonHit {
					return out + " HORIZON", nil
				}
				return out, &explore.Violation{Msg: fmt.Sprintf("%s, history %v: main thread blocked outside Read: %v", kind, script, ex.Parked), Sig: "C10 harness-blocked " + kindClass(kind)}
			}
			if ex.HorizonHit {
				return out + " HORIZON", nil
			}
			// final quiescence: a reader still parked must have neither a passed deadline nor data
			if reader && readerInRead && finalDL != 0 && finalDL <= ex.EndClock {
				fail("C10 blocked-read-not-released "+kindClass(kind), "reader still blocked in Read at quiescence (%v) although the read deadline %v has passed", ex.EndClock, finalDL)
			}
			if reader && readerInRead && avail > 0 && (finalDL == 0 || finalDL > ex.EndClock) {
				fail("C10 blocked-read-with-data "+kindClass(kind), "reader still blocked in Read at quiescence although %d datagram(s) were delivered and no deadline is set", avail)
			}
			if viol != nil {
				return out, viol
			}
			return out, nil
		}
		return body, check
	}
	return sc
}

// c10concurrentSets: two threads set the read deadline of one connection at the same time (optionally while an
// earlier deadline's timer is armed); after both calls returned, the deadline is set once more (+10 ms) and a
// read that finds no data must be released with a timeout, not earlier than that deadline.
func c10concurrentSets(kind string, bound int) *explore.Scenario {
	name := fmt.Sprintf("rd %s: two concurrent SetReadDeadline calls, then a deadline that must release a blocked read", kind)
	sc := &explore.Scenario{Name: name, Bound: bound}
	sc.Cfg.Horizon = 5 * time.Second
	menu := []string{"zero", "+5ms", "+10ms"}
	sc.Make = func() (func(), func(*zzvsched.Exec) (string, *explore.Violation)) {
		var viol *explore.Violation
		var script []string
		finished, mainInRead := false, false
		var lastD time.Duration
		result := ""
		fail := func(sig, format string, a ...any) {
			if viol == nil {
				viol = &explore.Violation{Sig: sig, Msg: fmt.Sprintf("%s, %v: ", kind, script) + fmt.Sprintf(format, a...)}
			}
		}
		body := func() {
			c := mkRdConn(kind)
			if zzvsched.Choose(2) == 1 {
				script = append(script, "first:+20ms")
				_ = c.setRD(zzvsched.Base.Add(20 * time.Millisecond))
			}
			var vals [2]time.Time
			for i := 0; i < 2; i++ {
				k := zzvsched.Choose(len(menu))
				script = append(script, menu[k])
				switch menu[k] {
				case "+5ms":
					vals[i] = zzvsched.Base.Add(5 * time.Millisecond)
				case "+10ms":
					vals[i] = zzvsched.Base.Add(10 * time.Millisecond)
				}
			}
			for i := 0; i < 2; i++ {
				i := i
				zzvsched.GoNamed(fmt.Sprintf("setter%d", i), func() { _ = c.setRD(vals[i]) })
			}
			zzvsched.WaitIdle()
			last := zzvsched.Now().Add(10 * time.Millisecond)
			_ = c.setRD(last)
			lastD = last.Sub(zzvsched.Base)
			mainInRead = true
			n, err := c.read(make([]byte, 32))
			mainInRead = false
			end := zzvsched.Elapsed()
			switch {
			case isTimeout(err) && end < lastD:
				fail("C10 early-or-spurious-timeout "+kindClass(kind), "Read returned a timeout at %v, before the deadline in force (%v; set after both concurrent calls had returned)", end, lastD)
			case isTimeout(err):
				result = "timeout"
			default:
				fail("C10 unexpected-result "+kindClass(kind), "nothing was delivered, yet Read returned (%d, %v)", n, err)
			}
			finished = true
		}
		check := func(ex *zzvsched.Exec) (string, *explore.Violation) {
			out := strings.Join(script, ",") + " -> " + result
			if len(ex.Panics) > 0 {
				return out, &explore.Violation{Msg: fmt.Sprintf("%s, %v: panic: %s\n%s", kind, script, ex.Panics[0].Value, ex.Panics[0].Stack), Sig: "C10 panic " + kindClass(kind)}
			}
			if viol != nil {
				return out, viol
			}
			if !finished {
				if mainInRead && !ex.HorizonHit {
					return out, &explore.Violation{Sig: "C10 blocked-read-not-released " + kindClass(kind),
						Msg: fmt.Sprintf("%s, %v: at quiescence (%v) the Read is still blocked although the read deadline %v, set after both concurrent calls had returned, has passed", kind, script, ex.EndClock, lastD)}
				}
				if ex.HorizonHit {
					return out + " HORIZON", nil
				}
				return out, &explore.Violation{Msg: fmt.Sprintf("%s, %v: main thread blocked outside Read: %v", kind, script, ex.Parked), Sig: "C10 harness-blocked " + kindClass(kind)}
			}
			return out, nil
		}
		return body, check
	}
	return sc
}

func kindClass(kind string) string {
	if strings.HasPrefix(kind, "vnet") {
		return "vnet"
	}
	return kind
}

func fmtDls(d []dlEntry) string {
	var s []string
	for _, e := range d[1:] {
		if e.d == 0 {
			s = append(s, fmt.Sprintf("zero@%v", e.at))
		} else {
			s = append(s, fmt.Sprintf("%v@%v", e.d, e.at))
		}
	}
	return "[" + strings.Join(s, " ") + "]"
}

func init() {
	register(&Check{ID: "C10", YieldOnRelease: true,
		Scenarios: func(tier string) []*explore.Scenario {
			var out []*explore.Scenario
			for _, k := range c10kinds {
				if tier == "quick" {
					out = append(out, c10scenario(k, 4, 0, false, false))
					out = append(out, c10scenario(k, 3, 1, true, false))
				} else {
					out = append(out, c10scenario(k, 5, 0, false, false))
					out = append(out, c10scenario(k, 4, 1, false, false))
					out = append(out, c10scenario(k, 3, 2, true, false))
					out = append(out, c10scenario(k, 4, 1, true, false))
				}
				if k != "bridge" {
					out = append(out, c10scenario(k, 4, 2, false, false, c10churnOps))
					// the same churn while a second thread is inside Read (anywhere between its entry and its wait)
					out = append(out, c10scenario(k, 2, 2, true, false, c10churnOps))
				}
				if tier == "quick" {
					out = append(out, c10concurrentSets(k, 2))
				} else {
					out = append(out, c10concurrentSets(k, 3))
				}
				if strings.HasPrefix(k, "vnet") {
					out = append(out, c10scenario(k, 4, 0, false, true))
					out = append(out, c10scenario(k, 3, 1, true, true))
				}
			}
			return out
		},
		Rule: "for each connection type (packet buffer, dpipe, udp.Conn over the fake socket, vnet socket via loopback and via a router, Bridge endpoint with a ticking peer): every history of the stated length over {SetReadDeadline(zero - at odd steps spelled with a location - |past|+10ms|+100ms), idle 20/200 ms, deliver one datagram, Read}, sequentially and with a second thread blocked in Read, x every schedule within the deviation bound; vnet sockets under both channel-timer semantics (legacy and go1.23); plus, per connection type, two threads calling SetReadDeadline at the same time (optionally over an armed earlier deadline), after which a +10 ms deadline must release a blocked read, and not early",
		Assumptions: []string{"a timeout is judged strictly (never before a non-zero deadline that was in force during the call); a required timeout is asserted only after the system settled past the deadline",
			"OS socket replaced by zzvsched/fakenet for udp.Conn"}})
}
