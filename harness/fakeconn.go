package main

import (
	"net"
	"os"
	"time"

	"github.com/pion/transport/v3/zzvsched"
)

// Scheduler-visible in-memory connections with exact deadline semantics, used as
// the wrapped connection of netctx / connctx (C17).  Every operation is a
// scheduling point; blocking is decided by the scheduler.

type fakeAddr string

func (a fakeAddr) Network() string { return "fake" }
func (a fakeAddr) String() string  { return string(a) }

type fakeTimeout struct{}

func (fakeTimeout) Error() string   { return "i/o timeout" }
func (fakeTimeout) Timeout() bool   { return true }
func (fakeTimeout) Temporary() bool { return true }
func (fakeTimeout) Is(e error) bool { return e == os.ErrDeadlineExceeded }

// halfPipe is one direction: a bounded byte buffer (stream) or message queue (packet).
type halfPipe struct {
	bytes  []byte
	msgs   [][]byte
	cap    int
	closed bool // writer side closed
	hb     uint64
}

type fakeConn struct {
	name     string
	in, out  *halfPipe
	rdl, wdl time.Time
	closed   bool
	packet   bool
	// observations for the oracle
	SetRD, SetWD []time.Time
}

func newFakePair(packet bool, capacity int) (*fakeConn, *fakeConn) {
	ab, ba := &halfPipe{cap: capacity}, &halfPipe{cap: capacity}
	return &fakeConn{name: "A", in: ba, out: ab, packet: packet}, &fakeConn{name: "B", in: ab, out: ba, packet: packet}
}

func passed(t time.Time) bool {
	return !t.IsZero() && zzvsched.Elapsed() >= t.Sub(zzvsched.Base)
}

func armClock(t time.Time) {
	if !t.IsZero() {
		if d := zzvsched.Until(t); d > 0 {
			zzvsched.NewTimer(d)
		}
	}
}

func (c *fakeConn) Read(b []byte) (int, error) {
	h := c.in
	zzvsched.Block(&h.hb, func() bool { return c.closed || passed(c.rdl) || len(h.bytes) > 0 || len(h.msgs) > 0 || h.closed })
	switch {
	case c.closed:
		return 0, net.ErrClosed
	case passed(c.rdl):
		return 0, fakeTimeout{}
	}
	if c.packet {
		if len(h.msgs) == 0 {
			return 0, net.ErrClosed
		}
		m := h.msgs[0]
		h.msgs = h.msgs[1:]
		return copy(b, m), nil
	}
	if len(h.bytes) == 0 {
		return 0, net.ErrClosed // peer closed: EOF-like
	}
	n := copy(b, h.bytes)
	h.bytes = h.bytes[n:]
	return n, nil
}

func (c *fakeConn) ReadFrom(b []byte) (int, net.Addr, error) {
	n, err := c.Read(b)
	return n, fakeAddr("peer-of-" + c.name), err
}

func (c *fakeConn) Write(b []byte) (int, error) {
	h := c.out
	if c.packet {
		zzvsched.Block(&h.hb, func() bool { return c.closed || passed(c.wdl) || len(h.msgs) < h.cap })
		switch {
		case c.closed:
			return 0, net.ErrClosed
		case passed(c.wdl):
			return 0, fakeTimeout{}
		}
		h.msgs = append(h.msgs, append([]byte(nil), b...))
		return len(b), nil
	}
	n := 0
	for {
		zzvsched.Block(&h.hb, func() bool { return c.closed || passed(c.wdl) || len(h.bytes) < h.cap })
		switch {
		case c.closed:
			return n, net.ErrClosed
		case passed(c.wdl):
			return n, fakeTimeout{}
		}
		k := h.cap - len(h.bytes)
		if k > len(b)-n {
			k = len(b) - n
		}
		h.bytes = append(h.bytes, b[n:n+k]...)
		n += k
		if n == len(b) {
			return n, nil
		}
	}
}

func (c *fakeConn) WriteTo(b []byte, _ net.Addr) (int, error) { return c.Write(b) }

func (c *fakeConn) Close() error {
	zzvsched.Block(&c.in.hb, func() bool { return true })
	c.closed = true
	c.out.closed = true
	return nil
}

func (c *fakeConn) LocalAddr() net.Addr  { return fakeAddr(c.name) }
func (c *fakeConn) RemoteAddr() net.Addr { return fakeAddr("peer-of-" + c.name) }

func (c *fakeConn) SetDeadline(t time.Time) error {
	_ = c.SetReadDeadline(t)
	return c.SetWriteDeadline(t)
}

func (c *fakeConn) SetReadDeadline(t time.Time) error {
	zzvsched.Block(&c.in.hb, func() bool { return true })
	if c.closed {
		return net.ErrClosed // like a real connection: deadlines cannot be set once it is closed
	}
	c.rdl = t
	c.SetRD = append(c.SetRD, t)
	armClock(t)
	return nil
}

func (c *fakeConn) SetWriteDeadline(t time.Time) error {
	zzvsched.Block(&c.out.hb, func() bool { return true })
	if c.closed {
		return net.ErrClosed
	}
	c.wdl = t
	c.SetWD = append(c.SetWD, t)
	armClock(t)
	return nil
}
