package main

import (
	"encoding/binary"
	"fmt"
	"hash/fnv"
	"reflect"
	"runtime/debug"
	"sort"
	"strings"
	"unsafe"
)

// stateKey is a 128-bit hash of a reflective dump of an object graph (all
// unexported fields, maps sorted, pointers canonicalised by first visit).  It is
// used only to merge states of the explicit-state search, never as an oracle.
type stateKey [2]uint64

type dumper struct {
	h1, h2  uint64
	seen    map[unsafe.Pointer]int
	skip    map[string]bool // struct field names to leave out (process-global counters etc.)
	scratch [8]byte
}

func newDumper(skip ...string) *dumper {
	d := &dumper{h1: 14695981039346656037, h2: 0x9E3779B97F4A7C15, seen: map[unsafe.Pointer]int{}, skip: map[string]bool{}}
	for _, s := range skip {
		d.skip[s] = true
	}
	return d
}

func (d *dumper) u64(v uint64) {
	d.h1 = (d.h1 ^ v) * 1099511628211
	d.h1 ^= d.h1 >> 31
	d.h2 = (d.h2 + v) * 0xBF58476D1CE4E5B9
	d.h2 ^= d.h2 >> 29
}

func (d *dumper) str(s string) {
	d.u64(uint64(len(s)))
	for i := 0; i+8 <= len(s); i += 8 {
		d.u64(binary.LittleEndian.Uint64([]byte(s[i : i+8])))
	}
	var tail uint64
	for i := len(s) &^ 7; i < len(s); i++ {
		tail = tail<<8 | uint64(s[i])
	}
	d.u64(tail)
}

func (d *dumper) bytes(b []byte) {
	d.u64(uint64(len(b)))
	i := 0
	for ; i+8 <= len(b); i += 8 {
		d.u64(binary.LittleEndian.Uint64(b[i : i+8]))
	}
	var tail uint64
	for ; i < len(b); i++ {
		tail = tail<<8 | uint64(b[i])
	}
	d.u64(tail)
}

func (d *dumper) key() stateKey { return stateKey{d.h1, d.h2} }

func access(v reflect.Value) reflect.Value {
	if v.CanInterface() || !v.CanAddr() {
		return v
	}
	return reflect.NewAt(v.Type(), unsafe.Pointer(v.UnsafeAddr())).Elem()
}

func (d *dumper) val(v reflect.Value) {
	switch v.Kind() {
	case reflect.Invalid:
		d.u64(0xDEAD)
	case reflect.Bool:
		if v.Bool() {
			d.u64(1)
		} else {
			d.u64(2)
		}
	case reflect.Int, reflect.Int8, reflect.Int16, reflect.Int32, reflect.Int64:
		d.u64(uint64(v.Int()))
	case reflect.Uint, reflect.Uint8, reflect.Uint16, reflect.Uint32, reflect.Uint64, reflect.Uintptr:
		d.u64(v.Uint())
	case reflect.Float32, reflect.Float64:
		d.u64(uint64(int64(v.Float() * 1e6)))
	case reflect.String:
		d.str(v.String())
	case reflect.Ptr:
		if v.IsNil() {
			d.u64(0x11)
			return
		}
		p := unsafe.Pointer(v.Pointer())
		if idx, ok := d.seen[p]; ok {
			d.u64(0x12)
			d.u64(uint64(idx))
			return
		}
		d.seen[p] = len(d.seen)
		d.u64(0x13)
		d.val(v.Elem())
	case reflect.Interface:
		if v.IsNil() {
			d.u64(0x14)
			return
		}
		e := v.Elem()
		d.str(e.Type().String())
		if !e.CanAddr() && e.Kind() == reflect.Struct {
			// copy into addressable storage so unexported fields can be read
			c := reflect.New(e.Type()).Elem()
			c.Set(e)
			e = c
		}
		d.val(e)
	case reflect.Struct:
		t := v.Type()
		if t.String() == "time.Time" {
			m := access(v).Interface()
			d.u64(uint64(m.(interface{ UnixNano() int64 }).UnixNano()))
			return
		}
		if !v.CanAddr() {
			c := reflect.New(t).Elem()
			c.Set(v)
			v = c
		}
		for i := 0; i < v.NumField(); i++ {
			if d.skip[t.Field(i).Name] {
				continue
			}
			d.val(access(v.Field(i)))
		}
	case reflect.Slice:
		if v.IsNil() {
			d.u64(0x15)
			return
		}
		if v.Type().Elem().Kind() == reflect.Uint8 {
			d.bytes(v.Bytes())
			return
		}
		d.u64(uint64(v.Len()))
		for i := 0; i < v.Len(); i++ {
			d.val(access(v.Index(i)))
		}
	case reflect.Array:
		for i := 0; i < v.Len(); i++ {
			d.val(access(v.Index(i)))
		}
	case reflect.Map:
		if v.IsNil() {
			d.u64(0x16)
			return
		}
		type kv struct {
			k string
			v reflect.Value
		}
		var kvs []kv
		it := v.MapRange()
		for it.Next() {
			kvs = append(kvs, kv{fmt.Sprint(access(it.Key()).Interface()), it.Value()})
		}
		sort.Slice(kvs, func(i, j int) bool { return kvs[i].k < kvs[j].k })
		d.u64(uint64(len(kvs)))
		for _, e := range kvs {
			d.str(e.k)
			ev := e.v
			if !ev.CanAddr() {
				c := reflect.New(ev.Type()).Elem()
				c.Set(ev)
				ev = c
			}
			d.val(ev)
		}
	case reflect.Chan:
		if v.IsNil() {
			d.u64(0x17)
			return
		}
		d.u64(uint64(v.Len())<<16 | uint64(v.Cap()))
	case reflect.Func:
		if v.IsNil() {
			d.u64(0x18)
		} else {
			d.u64(0x19)
		}
	case reflect.UnsafePointer:
		d.u64(0x1A)
	default:
		d.str(v.Type().String())
	}
}

func dumpKey(skip []string, objs ...any) stateKey {
	d := newDumper(skip...)
	for _, o := range objs {
		d.val(reflect.ValueOf(o))
	}
	return d.key()
}

func strKey(s string) stateKey {
	h := fnv.New64a()
	h.Write([]byte(s))
	a := h.Sum64()
	h.Write([]byte{0xA5})
	return stateKey{a, h.Sum64()}
}

// ---------------------------------------------------------------- generic BFS over histories

// seqSystem is one (implementation, reference model) pair driven by the BFS.
type seqSystem interface {
	// Ops lists the operations enabled in the current state (labels, simplest first).
	Ops() []string
	// Apply runs one operation on implementation and model and compares; a non-empty
	// sig is a violation.  obs summarises the observable answer (for outcome counting).
	Apply(op string) (obs, sig, msg string)
	// Key merges states: implementation dump + model state.
	Key() stateKey
}

type bfsResult struct {
	states, transitions int64
	maxDepth            int
	closed              bool // frontier exhausted before maxDepth
}

// bfs explores all histories up to maxDepth from the state reached by `prefix`
// (a bulk prefix of operations that is always replayed first).  Successors are
// produced by building a fresh system and replaying the shortest history.
func bfs(family string, fresh func() seqSystem, prefix []string, maxDepth int, maxStates int64, rep *SeqReport) bfsResult {
	type node struct{ hist []string }
	var res bfsResult
	build := func(h []string) seqSystem {
		s := fresh()
		for _, op := range prefix {
			s.Apply(op)
		}
		for _, op := range h {
			s.Apply(op)
		}
		return s
	}
	s0 := build(nil)
	seen := map[stateKey]struct{}{s0.Key(): {}}
	frontier := []node{{}}
	res.states = 1
	for depth := 0; depth < maxDepth && len(frontier) > 0; depth++ {
		var next []node
		for _, nd := range frontier {
			if seqExpired() || (maxStates > 0 && res.states >= maxStates) {
				rep.Truncated = true
				rep.family(fmt.Sprintf("bfs-runs-capped-while-expanding-depth-%d", depth+1), 1)
				rep.States += res.states
				rep.Transitions += res.transitions
				return res
			}
			base := build(nd.hist)
			ops := base.Ops()
			for i, op := range ops {
				var s seqSystem
				if i == len(ops)-1 {
					s = base // the last successor may consume the replayed instance
				} else {
					s = build(nd.hist)
				}
				obs, sig, msg := s.Apply(op)
				res.transitions++
				rep.Evaluations++
				rep.outcome(family + ":" + obs)
				h := append(append([]string(nil), nd.hist...), op)
				if sig != "" {
					rep.violate(family, sig, msg, histString(prefix, h))
					continue // do not build on a state the model no longer describes
				}
				k := s.Key()
				if _, ok := seen[k]; ok {
					continue
				}
				seen[k] = struct{}{}
				res.states++
				next = append(next, node{h})
				if res.states%50000 == 1 {
					rep.sample(family + ": " + histString(prefix, h))
				}
			}
		}
		frontier = next
		res.maxDepth = depth + 1
	}
	res.closed = len(frontier) == 0
	if res.closed {
		rep.family("bfs-runs-closed-(fixed-point)", 1)
	} else {
		rep.family(fmt.Sprintf("bfs-runs-complete-to-depth-%d", maxDepth), 1)
	}
	rep.States += res.states
	rep.Transitions += res.transitions
	if len(rep.Samples) < 2 && len(frontier) > 0 {
		rep.sample(family + ": " + histString(prefix, frontier[len(frontier)/2].hist))
	}
	return res
}

func histString(prefix, h []string) string {
	var b strings.Builder
	if len(prefix) > 0 {
		if len(prefix) > 6 {
			fmt.Fprintf(&b, "[bulk prefix of %d ops: %s ... %s] ", len(prefix), prefix[0], prefix[len(prefix)-1])
		} else {
			b.WriteString(strings.Join(prefix, "; ") + "; ")
		}
	}
	b.WriteString(strings.Join(h, "; "))
	return b.String()
}

// panicAsViolation turns a panic of the code under test inside a sequential step into a violation
// ("never crashes" is part of every property); deferred by every Apply.
func panicAsViolation(op string, sig, msg *string) {
	if r := recover(); r != nil {
		*sig = "panic"
		st := string(debug.Stack())
		if i := strings.Index(st, "panic("); i >= 0 {
			st = st[i:]
		}
		if len(st) > 1500 {
			st = st[:1500]
		}
		*msg = fmt.Sprintf("operation %q panicked: %v\n%s", op, r, st)
	}
}
