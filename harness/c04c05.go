package main

import (
	"fmt"
	"sort"
	"strconv"
	"strings"

	"github.com/pion/transport/v3/replaydetector"
)

// C04 / C05 — replay detectors.  One enumeration, two oracles:
//   C04: no number whose accept ran is ever accepted again; nothing above max.
//   C05: every Check answer and every accept() result equals the sliding-window model.

type rdCfg struct {
	wrap bool
	w    uint
	max  uint64
}

func (c rdCfg) String() string {
	k := "plain"
	if c.wrap {
		k = "wrap"
	}
	return fmt.Sprintf("%s(w=%d,max=%d)", k, c.w, c.max)
}

// inC05Domain: the configurations C05 quantifies over.
func (c rdCfg) inC05Domain() bool {
	if c.wrap {
		return c.max < 1<<62 && c.max+1 >= 2*uint64(c.w) && c.max >= 7 // below 8 numbers the unconstrained boundary band covers the whole space
	}
	return c.max >= uint64(c.w)
}

type rdSys struct {
	cfg      rdCfg
	mode     string // "C04" or "C05"
	det      replaydetector.ReplayDetector
	accepted map[uint64]bool // every number whose accept ran (C04)
	newest   uint64
	started  bool
	rel      []int64  // relative alphabet (offsets from newest), or
	abs      []uint64 // absolute alphabet
	dead     bool
	deferred bool // C04: a successful check may keep its accept callback for later ("D:" / "A:k")
	pend     []pendAcc
}

type pendAcc struct {
	seq    uint64
	accept func() bool
}

func newRdSys(cfg rdCfg, mode string) *rdSys {
	s := &rdSys{cfg: cfg, mode: mode, accepted: map[uint64]bool{}}
	if cfg.wrap {
		s.det = replaydetector.WithWrap(cfg.w, cfg.max)
	} else {
		s.det = replaydetector.New(cfg.w, cfg.max)
	}
	return s
}

func (s *rdSys) m() uint64 { return s.cfg.max + 1 } // only used when max < 2^64-1 (wrap)

// zone reports whether seq lies in the band around the half-space boundary that
// the property leaves unconstrained (wrap only).
func (s *rdSys) zone(seq uint64) bool {
	if !s.cfg.wrap || !s.started || seq > s.cfg.max {
		return false
	}
	M := s.m()
	ahead := (seq + M - s.newest) % M
	// exactly the two numbers nearest the half-space boundary (the property leaves them unconstrained)
	lo := (M - 1) / 2
	hi := lo + 1
	return ahead >= lo && ahead <= hi
}

// model answers: ok of Check, and what accept() must return.
func (s *rdSys) model(seq uint64) (ok, latest bool) {
	if seq > s.cfg.max {
		return false, false
	}
	w := uint64(s.cfg.w)
	if s.cfg.wrap {
		if !s.started {
			return true, true
		}
		M := s.m()
		ahead := (seq + M - s.newest) % M
		behind := (s.newest + M - seq) % M
		if ahead > 0 && 2*ahead < M {
			return true, true
		}
		if behind < w && !s.accepted[seq] {
			return true, false
		}
		return false, false
	}
	pos := s.newest // positioned at 0 while nothing is accepted
	if seq > pos {
		return true, true
	}
	if pos-seq < w && !s.accepted[seq] {
		return true, !s.started // the first accepted number is the newest accepted one
	}
	return false, false
}

func (s *rdSys) Ops() []string {
	if s.dead {
		return nil
	}
	var out []string
	add := func(seq uint64) {
		if s.zone(seq) {
			return
		}
		out = append(out, "CA:"+strconv.FormatUint(seq, 10), "C:"+strconv.FormatUint(seq, 10))
		if s.deferred && len(s.pend) < 2 {
			out = append(out, "D:"+strconv.FormatUint(seq, 10))
		}
	}
	for k := range s.pend {
		out = append(out, "A:"+strconv.Itoa(k))
	}
	if s.abs != nil {
		for _, a := range s.abs {
			add(a)
		}
		return out
	}
	seen := map[uint64]bool{}
	for _, off := range s.rel {
		var seq uint64
		if s.cfg.wrap {
			M := int64(s.m())
			seq = uint64(((int64(s.newest)+off)%M + M) % M)
		} else {
			if off < 0 {
				if uint64(-off) > s.newest {
					continue
				}
				seq = s.newest - uint64(-off)
			} else {
				seq = s.newest + uint64(off)
				if seq < s.newest {
					continue
				}
			}
		}
		if seen[seq] {
			continue
		}
		seen[seq] = true
		add(seq)
	}
	return out
}

func (s *rdSys) Apply(op string) (obs, sig, msg string) {
	defer panicAsViolation(op, &sig, &msg)
	i := strings.IndexByte(op, ':')
	seq, _ := strconv.ParseUint(op[i+1:], 10, 64)
	doAccept := op[:i] == "CA"
	kind := "plain"
	if s.cfg.wrap {
		kind = "wrap"
	}
	if op[:i] == "A" {
		// a callback kept from an earlier successful check is invoked now
		p := s.pend[seq]
		s.pend = append(s.pend[:seq:seq], s.pend[seq+1:]...)
		if s.zone(p.seq) {
			// by now the number lies in the unconstrained band around the half-space boundary:
			// whatever the late accept does is outside the property; do not build on it
			p.accept()
			s.dead = true
			return "late-accept in boundary band", "", ""
		}
		latest := p.accept()
		s.noteAccepted(p.seq, latest)
		return fmt.Sprintf("late-accept latest=%v", latest), "", ""
	}
	mok, mlatest := s.model(seq)
	accept, ok := s.det.Check(seq)
	obs = fmt.Sprintf("ok=%v", ok)
	// ---- C04 oracle (independent of the window model)
	if ok && seq > s.cfg.max {
		return obs, "C04 above-max " + kind, fmt.Sprintf("%v: Check(%d) succeeded above the maximum", s.cfg, seq)
	}
	if ok && s.accepted[seq] {
		dupOK := true
		if s.cfg.wrap {
			M := s.m()
			behind := (s.newest + M - seq) % M
			dupOK = behind+1 < M/2 // newest is less than half the space ahead (boundary band excluded)
		}
		if dupOK {
			return obs, "C04 replay-accepted " + kind, fmt.Sprintf("%v: Check(%d) succeeded although %d was accepted before (newest accepted %d)", s.cfg, seq, seq, s.newest)
		}
	}
	// ---- C05 oracle
	if s.mode == "C05" && ok != mok {
		what := "refused a number the rule admits"
		sg := "C05 refused-fresh "
		if ok {
			what = "admitted a number the rule refuses"
			sg = "C05 admitted-stale "
		}
		return obs, sg + kind, fmt.Sprintf("%v: Check(%d)=%v, model %v (newest accepted %d, anything accepted: %v): %s", s.cfg, seq, ok, mok, s.newest, s.started, what)
	}
	if ok && op[:i] == "D" {
		s.pend = append(s.pend, pendAcc{seq, accept})
		return obs + " kept", "", ""
	}
	if ok && doAccept {
		latest := accept()
		obs += fmt.Sprintf(" latest=%v", latest)
		if s.mode == "C05" && latest != mlatest {
			return obs, "C05 latest-flag " + kind, fmt.Sprintf("%v: accept(%d) returned %v, model %v (newest accepted before: %d, anything accepted: %v)", s.cfg, seq, latest, mlatest, s.newest, s.started)
		}
		// model update (for C04 on configurations outside the C05 domain the
		// implementation's own notion of newest is the only one available)
		adv := mlatest
		if s.mode == "C04" && !s.cfg.inC05Domain() {
			adv = latest
			if s.cfg.wrap && s.started {
				// wrapping detector whose window exceeds half the space: "newest" is still defined by the
				// half-space rule the property states - a number less than half the space ahead of the newest
				// becomes the newest, one behind it does not (the band around exactly half is unconstrained)
				M := s.m()
				ahead := (seq + M - s.newest) % M
				switch {
				case ahead+1 >= M/2 && ahead <= M/2+1:
					s.dead = true
				default:
					adv = ahead > 0 && ahead < M/2
				}
			}
		}
		s.accepted[seq] = true
		if adv || !s.started {
			if s.cfg.wrap || seq > s.newest || !s.started {
				s.newest = seq
			}
		}
		s.started = true
		// C05 only needs the numbers still inside the window (older ones are refused
		// as too old, or - wrapping - look new again after half the space); C04 keeps
		// everything: a replay must be refused however old it is.
		if s.mode == "C04" && s.cfg.wrap {
			// the obligation lapses once the newest number has been (about) half the
			// space ahead of a: from then on a counts as new again
			M := s.m()
			for a := range s.accepted {
				if (s.newest+M-a)%M+1 >= M/2 {
					delete(s.accepted, a)
				}
			}
		}
		if s.mode == "C05" {
			for a := range s.accepted {
				var behind uint64
				if s.cfg.wrap {
					M := s.m()
					behind = (s.newest + M - a) % M
				} else {
					behind = s.newest - a
				}
				if behind >= uint64(s.cfg.w) {
					delete(s.accepted, a)
				}
			}
		}
	}
	return obs, "", ""
}

// noteAccepted records a (possibly late) accept for the C04 oracle: the number counts as
// accepted; it becomes the newest if it is ahead of the newest so far.
func (s *rdSys) noteAccepted(seq uint64, implLatest bool) {
	s.accepted[seq] = true
	if !s.started {
		s.newest, s.started = seq, true
		return
	}
	if s.cfg.wrap {
		M := s.m()
		if ahead := (seq + M - s.newest) % M; ahead > 0 && ahead < M/2 {
			s.newest = seq
		}
		for a := range s.accepted {
			if (s.newest+M-a)%M+1 >= M/2 {
				delete(s.accepted, a)
			}
		}
	} else if seq > s.newest {
		s.newest = seq
	}
}

func (s *rdSys) Key() stateKey {
	var acc []uint64
	for a := range s.accepted {
		acc = append(acc, a)
	}
	sort.Slice(acc, func(i, j int) bool { return acc[i] < acc[j] })
	var pend []uint64
	for _, p := range s.pend {
		pend = append(pend, p.seq)
	}
	return dumpKey(nil, s.det, acc, s.newest, s.started, pend)
}

// ------------------------------------------------------------------ enumeration

func rdWindows(tier string) []uint {
	if tier == "thorough" {
		var ws []uint
		for w := uint(0); w <= 260; w++ {
			ws = append(ws, w)
		}
		return ws
	}
	return []uint{0, 1, 2, 31, 32, 33, 47, 48, 50, 63, 64, 65, 100, 127, 128, 129, 196, 255, 256, 257}
}

func relAlphabet(w uint) []int64 {
	set := map[int64]bool{}
	for _, b := range []int64{-int64(w), -64, 0, 64, int64(w)} {
		for d := int64(-1); d <= 1; d++ {
			set[b+d] = true
		}
	}
	set[-2*int64(w)] = true
	var out []int64
	for k := range set {
		out = append(out, k)
	}
	sort.Slice(out, func(i, j int) bool {
		ai, aj := out[i], out[j]
		if ai < 0 {
			ai = -ai
		}
		if aj < 0 {
			aj = -aj
		}
		if ai != aj {
			return ai < aj
		}
		return out[i] > out[j]
	})
	return out
}

func runRD(mode, tier string, shard, shards int, rep *SeqReport) {
	unit := 0
	mine := func() bool { unit++; return (unit-1)%shards == shard }
	sysOf := func(cfg rdCfg) *rdSys { return newRdSys(cfg, mode) }

	// (i) closed state spaces of small configurations: BFS to a fixed point
	for w := uint(0); w <= 7; w++ {
		var cfgs []rdCfg
		if w <= 6 {
			for max := uint64(1); max <= 12; max++ {
				cfgs = append(cfgs, rdCfg{false, w, max})
			}
			for max := uint64(7); max <= 20; max++ {
				cfgs = append(cfgs, rdCfg{true, w, max})
			}
		} else if mode == "C04" {
			// wrapping detectors whose window is larger than half of / the whole sequence space
			cfgs = append(cfgs, rdCfg{true, 8, 9}, rdCfg{true, 9, 9}, rdCfg{true, 12, 9}, rdCfg{true, 16, 9})
		}
		for _, cfg := range cfgs {
			if mode == "C05" && !cfg.inC05Domain() {
				continue
			}
			if mode == "C04" && cfg.wrap && cfg.max < 7 {
				continue // below 8 numbers "less than half the space ahead" leaves almost nothing to require
			}
			if mode == "C04" && cfg.max > 9 {
				continue // C04 keeps the full accepted set in the state: closed only for small maxima
			}
			if !mine() {
				continue
			}
			cfg := cfg
			fresh := func() seqSystem {
				s := sysOf(cfg)
				for a := uint64(0); a <= cfg.max+1; a++ {
					s.abs = append(s.abs, a)
				}
				s.deferred = mode == "C04" && cfg.max <= 7 && cfg.w <= 6
				return s
			}
			depth := 64
			r := bfs("closed "+cfg.String(), fresh, nil, depth, 400000, rep)
			rep.family("closed-state-space", r.transitions)
			if !r.closed {
				rep.Truncated = true
			}
		}
	}
	// (ii) every window size: one mask bit at every position shifted by every distance
	maxima := func(wrap bool) []uint64 {
		if wrap {
			// also maxima that are not of the form 2^k-1 (masking shortcuts are wrong there)
			if tier != "thorough" {
				return []uint64{1<<16 - 1, 1000, 1 << 16, 1<<62 - 1}
			}
			return []uint64{1<<16 - 1, 1<<48 - 1, 1<<62 - 1, 1000, 9999, 1 << 16, 1<<16 + 1, 100000}
		}
		if tier != "thorough" {
			return []uint64{1<<48 - 1, 1000, 1<<64 - 1}
		}
		return []uint64{1<<16 - 1, 1<<48 - 1, 1<<64 - 1, 1000, 1 << 16, 100000}
	}
	for _, w := range rdWindows(tier) {
		for _, wrap := range []bool{false, true} {
			for _, max := range maxima(wrap) {
				cfg := rdCfg{wrap, w, max}
				if !cfg.inC05Domain() {
					continue
				}
				if !mine() {
					continue
				}
				fam := "shift " + cfg.String()
				var starts []uint64
				if wrap {
					starts = []uint64{0, 1, max/2 - 3, max - uint64(2*w) - 70, max - 1, max}
				} else {
					starts = []uint64{0, 1, 1000, max - uint64(2*w) - 140, max - uint64(w) - 2, max - 3} // also with the newest number within one window of the maximum
				}
				var n int64
				for _, a := range starts {
					for p := uint64(0); p <= uint64(w)+1; p++ {
						if seqExpired() {
							rep.Truncated = true
							return
						}
						for d := uint64(1); d <= uint64(w)+65; d++ {
							if tier != "thorough" && d > 66 && !(d+2 >= uint64(w) && d <= uint64(w)+2) && d < uint64(w)+62 {
								continue
							}
							s := sysOf(cfg)
							b, c := a+p, a+p+d
							if wrap {
								b, c = b%(max+1), c%(max+1)
							} else if c < a || c > max {
								continue
							}
							ops := []string{"CA:" + u(a), "CA:" + u(b), "CA:" + u(c),
								"C:" + u(a), "C:" + u(b), "C:" + u(c)}
							// neighbours of the window edge and of the accepted numbers
							for _, x := range []uint64{c - uint64(w), c - uint64(w) + 1, c - uint64(w) - 1, a + 1, b + 1, c + 1, c - 1} {
								if wrap {
									x = (x + (max + 1)) % (max + 1)
								} else if x > max && x > c {
									continue
								}
								ops = append(ops, "CA:"+u(x), "C:"+u(x))
							}
							var hist []string
							for _, op := range ops {
								q, _ := strconv.ParseUint(op[strings.IndexByte(op, ':')+1:], 10, 64)
								if s.zone(q) {
									continue
								}
								hist = append(hist, op)
								obs, sig, msg := s.Apply(op)
								rep.Transitions++
								if sig != "" {
									rep.violate(fam, sig, msg, strings.Join(hist, "; "))
									break
								}
								_ = obs
							}
							n++
							rep.Evaluations++
						}
					}
				}
				rep.family("shift-family", n)
				rep.States += n
				rep.sample(fmt.Sprintf("%s: CA:a; CA:a+p; CA:a+p+d; re-check all, for p in 0..%d, d in 1..%d, a in %v", fam, w+1, w+65, starts))
				// (ii-b) two large jumps in a row: a number accepted just behind the head, then the head moves by about
				// a window (or a mask word) twice — whatever the implementation recycles on a jump must come back clean
				{
					var n2 int64
					W := uint64(w)
					jumps := []uint64{63, 64, 65, W - 1, W, W + 1, W + 64, 2 * W}
					for _, a := range starts {
						for _, q := range []uint64{1, 2, 63, 64, W - 1} {
							if q == 0 || q >= W {
								continue
							}
							for _, d1 := range jumps {
								for _, d2 := range jumps {
									if d1 == 0 || d2 == 0 || d1 > 1<<20 || d2 > 1<<20 {
										continue
									}
									var h, m1, top uint64
									if wrap {
										M := max + 1
										h, m1, top = (a+M-q%M)%M, (a+d1)%M, (a+d1+d2)%M
									} else {
										if a < q || a+d1+d2 < a || a+d1+d2 > max {
											continue
										}
										h, m1, top = a-q, a+d1, a+d1+d2
									}
									s := sysOf(cfg)
									ops := []string{"CA:" + u(a), "CA:" + u(h), "CA:" + u(m1), "CA:" + u(top)}
									for _, x := range []uint64{top - q, top - 1, top - 2, top - W + 1, top - W, m1 - q, m1 - 1, m1, h, a, top, top + 1} {
										if wrap {
											x = (x + 2*(max+1)) % (max + 1)
										} else if x > max {
											continue
										}
										ops = append(ops, "C:"+u(x), "CA:"+u(x))
									}
									var hist []string
									for _, op := range ops {
										qq, _ := strconv.ParseUint(op[strings.IndexByte(op, ':')+1:], 10, 64)
										if s.zone(qq) {
											continue
										}
										hist = append(hist, op)
										_, sig, msg := s.Apply(op)
										rep.Transitions++
										if sig != "" {
											rep.violate("double-jump "+cfg.String(), sig, msg, strings.Join(hist, "; "))
											break
										}
									}
									n2++
									rep.Evaluations++
								}
							}
						}
					}
					rep.family("double-jump-family", n2)
					rep.States += n2
				}
				// (iii) BFS over the offset alphabet from deep starts
				for ai, a := range starts {
					a := a
					depth := 2
					if tier == "thorough" || ai == 0 || ai == len(starts)-1 {
						depth = 3
					}
					if tier == "thorough" && w%16 == 1 && ai == len(starts)-1 {
						depth = 4
					}
					fresh := func() seqSystem {
						s := sysOf(cfg)
						s.rel = relAlphabet(w)
						return s
					}
					r := bfs("offsets "+cfg.String(), fresh, []string{"CA:" + u(a)}, depth, 300000, rep)
					rep.family("offset-bfs", r.transitions)
				}
			}
		}
	}
	// (iv) plain detector with a maximum below the window (C04 only: "any maximum")
	if mode == "C04" {
		for w := uint(1); w <= 70; w += 3 {
			for _, max := range []uint64{1, 2, 3, uint64(w) / 2, uint64(w) - 1} {
				if max == 0 || max >= uint64(w) {
					continue
				}
				if !mine() {
					continue
				}
				cfg := rdCfg{false, w, max}
				fresh := func() seqSystem {
					s := sysOf(cfg)
					for a := uint64(0); a <= max+1 && a <= 6; a++ {
						s.abs = append(s.abs, a)
					}
					if max > 6 {
						s.abs = append(s.abs, max-1, max, max+1)
					}
					return s
				}
				r := bfs("max<window "+cfg.String(), fresh, nil, 5, 200000, rep)
				rep.family("max-below-window", r.transitions)
			}
		}
	}
}

func u(x uint64) string { return strconv.FormatUint(x, 10) }

func init() {
	assume := []string{"sequence numbers come from the enumerated alphabets (all numbers for the closed small configurations; window/word-boundary/edge offsets for large ones)",
		"wrapping detector: numbers within 1 of the half-space boundary are unconstrained and not probed"}
	register(&Check{ID: "C04", Seq: func(tier string, shard, shards int, rep *SeqReport) { runRD("C04", tier, shard, shards, rep) },
		Rule:        "explicit-state BFS over Check/accept histories of the real detectors to a fixed point for windows 0..6 x maxima 1..15; for every listed window size (quick: 20 sizes around multiples of 64; thorough: 0..260) and maxima 2^16-1, 2^48-1, 2^64-1 (wrap 2^62-1) every 3-accept history placing a mask bit at every position and shifting it by every distance, plus every double-jump history (a number accepted just behind the head, then two jumps of about a window or a mask word, then the neighbourhood re-checked), plus depth-3/4 BFS over offsets around window edge and 64-bit word boundaries; states merged on a reflective dump of the detector + model",
		Assumptions: assume})
	register(&Check{ID: "C05", Seq: func(tier string, shard, shards int, rep *SeqReport) { runRD("C05", tier, shard, shards, rep) },
		Rule:        "same enumeration as C04 restricted to the configurations C05 quantifies over; every Check result and every accept() result is compared with the sliding-window reference model, check-only operations must not change later answers",
		Assumptions: assume})
}
