module verifharness

go 1.20

require github.com/pion/transport/v3 v3.0.0

replace github.com/pion/transport/v3 => /repo
