package main

import (
	"crypto/sha1"
	"encoding/json"
	"fmt"
	"os"
	"os/exec"
	"path/filepath"
	"runtime"
	"sort"
	"strconv"
	"strings"
	"sync"
	"time"

	"verifharness/explore"
)

// Check is the machinery registered for one property.
type Check struct {
	ID string
	// Scenarios returns the closed harnesses explored by the SCHED engine.
	Scenarios func(tier string) []*explore.Scenario
	// Seq enumerates operation histories / configurations (SEQ engine).  It must
	// only handle the work units with index%shards == shard.
	Seq         func(tier string, shard, shards int, rep *SeqReport)
	Rule        string
	Assumptions []string
	Technique   string
	// ShardByScenario distributes whole scenarios over the workers (many small trees)
	// instead of splitting every scenario's tree at depth 2 (few large trees).
	ShardByScenario bool
	// YieldOnRelease puts a scheduling point after every Mutex/RWMutex unlock in all scenarios of the check
	// (what a call does after giving up a lock is interleaved with the other threads)
	YieldOnRelease bool
}

var registry = map[string]*Check{}

func register(c *Check) {
	registry[c.ID] = c
}

// scenariosOf applies the experiment override VERIF_BOUND (e.g. -1 = unbounded) to every scenario.
func scenariosOf(c *Check, tier string) []*explore.Scenario {
	if c.Scenarios == nil {
		return nil
	}
	scs := c.Scenarios(tier)
	if v := os.Getenv("VERIF_BOUND"); v != "" {
		if b, err := strconv.Atoi(v); err == nil {
			for _, sc := range scs {
				if !sc.Cfg.Strict || os.Getenv("VERIF_BOUND_STRICT") != "" {
					sc.Bound = b
				}
			}
		}
	}
	if c.YieldOnRelease || os.Getenv("VERIF_YIELD_ON_RELEASE") != "" {
		for _, sc := range scs {
			sc.Cfg.YieldOnRelease = true
		}
	}
	return scs
}

// SeqViolation is a violating history found by a SEQ enumeration.
type SeqViolation struct {
	Family  string
	Sig     string
	Msg     string
	History string
}

// SeqReport accumulates what a SEQ enumeration covered.
type SeqReport struct {
	Evaluations int64            `json:"evaluations"`
	States      int64            `json:"states"`
	Transitions int64            `json:"transitions"`
	Outcomes    map[string]int64 `json:"outcomes"`
	Samples     []string         `json:"samples"`
	Violations  []SeqViolation   `json:"violations"`
	Truncated   bool             `json:"truncated"`
	Families    map[string]int64 `json:"families"`
	sigSeen     map[string]bool
}

func (r *SeqReport) outcome(o string) {
	if r.Outcomes == nil {
		r.Outcomes = map[string]int64{}
	}
	if len(r.Outcomes) < 5000 || r.Outcomes[o] > 0 {
		r.Outcomes[o]++
	}
}

func (r *SeqReport) family(f string, n int64) {
	if r.Families == nil {
		r.Families = map[string]int64{}
	}
	r.Families[f] += n
}

func (r *SeqReport) sample(s string) {
	if len(r.Samples) < 4 {
		r.Samples = append(r.Samples, s)
	}
}

func (r *SeqReport) violate(family, sig, msg, hist string) {
	if r.sigSeen == nil {
		r.sigSeen = map[string]bool{}
	}
	// keep the first (shortest-first enumeration) witness per signature, at most 40 signatures
	if r.sigSeen[sig] || len(r.Violations) >= 40 {
		return
	}
	r.sigSeen[sig] = true
	r.Violations = append(r.Violations, SeqViolation{family, sig, msg, hist})
}

// WorkerResult is what one worker process reports.
type WorkerResult struct {
	Scen  map[string]*explore.Stats `json:"scen"`
	Found []*explore.Found          `json:"found"`
	Seq   *SeqReport                `json:"seq"`
	Err   string                    `json:"err"`
}

type knownFile struct {
	Findings []struct {
		Property string `json:"property"`
		Sig      string `json:"sig"`
		What     string `json:"what"`
	} `json:"findings"`
	Fixed []string `json:"fixed"`
}

func verifRoot() string {
	if v := os.Getenv("VERIF_ROOT"); v != "" {
		return v
	}
	return "/verif"
}

func loadKnown() *knownFile {
	k := &knownFile{}
	b, err := os.ReadFile(filepath.Join(verifRoot(), "known_findings.json"))
	if err == nil {
		_ = json.Unmarshal(b, k)
	}
	return k
}

func (k *knownFile) match(prop, sig string) (string, bool) {
	for _, f := range k.Findings {
		if f.Property == prop && f.Sig == sig {
			return f.What, true
		}
	}
	return "", false
}

func tierDeadline(tier string) time.Time {
	d := 150 * time.Second
	if tier == "thorough" {
		d = 14 * time.Minute
	}
	if v := os.Getenv("VERIF_BUDGET_S"); v != "" {
		if n, err := strconv.Atoi(v); err == nil {
			d = time.Duration(n) * time.Second
		}
	}
	return time.Now().Add(d)
}

func runWorker(c *Check, tier string, shard, shards int, out string) {
	res := &WorkerResult{Scen: map[string]*explore.Stats{}}
	deadline := tierDeadline(tier)
	if c.Scenarios != nil {
		for i, sc := range scenariosOf(c, tier) {
			o := explore.Options{Shard: shard, Shards: shards, Deadline: deadline, MaxFound: 3}
			if c.ShardByScenario {
				if i%shards != shard {
					continue
				}
				o.Shard, o.Shards = 0, 1
			}
			st, found := explore.Explore(sc, o)
			res.Scen[sc.Name] = st
			res.Found = append(res.Found, found...)
		}
	}
	if c.Seq != nil {
		res.Seq = &SeqReport{}
		seqDeadline = deadline
		c.Seq(tier, shard, shards, res.Seq)
	}
	b, _ := json.Marshal(res)
	if err := os.WriteFile(out, b, 0o644); err != nil {
		fmt.Fprintln(os.Stderr, "worker:", err)
		os.Exit(2)
	}
}

var seqDeadline time.Time

func seqExpired() bool { return !seqDeadline.IsZero() && time.Now().After(seqDeadline) }

type scenEvidence struct {
	Name        string   `json:"name"`
	Bound       string   `json:"bound"`
	Executions  int64    `json:"executions"`
	States      int64    `json:"states"`
	Transitions int64    `json:"transitions"`
	Outcomes    int      `json:"distinct_outcomes"`
	OutcomeList []string `json:"outcomes,omitempty"`
	Conflicting int64    `json:"executions_with_conflicts"`
	HorizonHits int64    `json:"horizon_hits"`
	Pruned      int64    `json:"pruned_by_state_cache"`
	MaxPoints   int      `json:"max_choice_points"`
	MaxThreads  int      `json:"max_threads"`
	Exhaustive  bool     `json:"exhaustive"`
}

func coordinator(c *Check, tier string) int {
	start := time.Now()
	seed, _ := strconv.Atoi(os.Getenv("VERIF_SEED"))
	shards := runtime.NumCPU()
	if v := os.Getenv("VERIF_WORKERS"); v != "" {
		if n, err := strconv.Atoi(v); err == nil && n > 0 {
			shards = n
		}
	}
	self, _ := os.Executable()
	tmp, err := os.MkdirTemp(filepath.Join(verifRoot(), ".build"), "run-"+c.ID+"-")
	if err != nil {
		fmt.Fprintln(os.Stderr, err)
		return 2
	}
	defer os.RemoveAll(tmp)
	results := make([]*WorkerResult, shards)
	var wg sync.WaitGroup
	var mu sync.Mutex
	failed := ""
	for k := 0; k < shards; k++ {
		wg.Add(1)
		go func(k int) {
			defer wg.Done()
			out := filepath.Join(tmp, fmt.Sprintf("w%d.json", k))
			cmd := exec.Command(self, c.ID, tier, "--worker", fmt.Sprintf("%d/%d", k, shards), "--out", out)
			cmd.Env = append(os.Environ(), "GOMAXPROCS=1", "GOMEMLIMIT=6GiB")
			if c.ID == "C19" {
				rl := filepath.Join(tmp, fmt.Sprintf("race-w%d", k))
				cmd.Env = append(cmd.Env, "GORACE=halt_on_error=0 exitcode=0 log_path="+rl, "VERIF_RACELOG="+rl)
			}
			cmd.Stderr = os.Stderr
			cmd.Stdout = os.Stderr
			if err := cmd.Run(); err != nil {
				mu.Lock()
				failed = fmt.Sprintf("worker %d: %v", k, err)
				mu.Unlock()
				return
			}
			b, err := os.ReadFile(out)
			if err != nil {
				mu.Lock()
				failed = fmt.Sprintf("worker %d: %v", k, err)
				mu.Unlock()
				return
			}
			r := &WorkerResult{}
			if err := json.Unmarshal(b, r); err != nil {
				mu.Lock()
				failed = fmt.Sprintf("worker %d: %v", k, err)
				mu.Unlock()
				return
			}
			results[k] = r
		}(k)
	}
	wg.Wait()
	if failed != "" {
		fmt.Fprintln(os.Stderr, "machinery error:", failed)
		return 2
	}
	// merge
	merged := map[string]*explore.Stats{}
	var found []*explore.Found
	seq := &SeqReport{}
	for _, r := range results {
		for name, st := range r.Scen {
			if merged[name] == nil {
				merged[name] = &explore.Stats{}
			}
			merged[name].Merge(st)
		}
		found = append(found, r.Found...)
		if r.Seq != nil {
			seq.Evaluations += r.Seq.Evaluations
			seq.States += r.Seq.States
			seq.Transitions += r.Seq.Transitions
			seq.Truncated = seq.Truncated || r.Seq.Truncated
			for k, v := range r.Seq.Outcomes {
				if seq.Outcomes == nil {
					seq.Outcomes = map[string]int64{}
				}
				seq.Outcomes[k] += v
			}
			for k, v := range r.Seq.Families {
				seq.family(k, v)
			}
			for _, s := range r.Seq.Samples {
				seq.sample(s)
			}
			seq.Violations = append(seq.Violations, r.Seq.Violations...)
		}
	}
	known := loadKnown()
	exit := 0
	nviol := 0
	printed := map[string]bool{}
	// SCHED violations: confirm determinism by replaying, then report
	scByName := map[string]*explore.Scenario{}
	for _, sc := range scenariosOf(c, tier) {
		scByName[sc.Name] = sc
	}
	sort.Slice(found, func(i, j int) bool { return len(found[i].Prefix) < len(found[j].Prefix) })
	for _, f := range found {
		key := f.V.Sig
		if printed[key] {
			continue
		}
		printed[key] = true
		sc := scByName[f.Scenario]
		// replay 5x: identical trace hash and identical verdict required
		var h0 uint64
		var trace []string
		if c.ID == "C19" {
			// the race detector reports a given pair of stacks once per process: confirm in fresh processes
			ok := true
			for i := 0; i < 2 && ok; i++ {
				spec, _ := json.Marshal(map[string]any{"tier": tier, "scenario": f.Scenario, "prefix": f.Prefix})
				sp := filepath.Join(tmp, fmt.Sprintf("confirm-%d.json", i))
				_ = os.WriteFile(sp, spec, 0o644)
				rl := filepath.Join(tmp, fmt.Sprintf("race-confirm-%d-%d", len(printed), i))
				cmd := exec.Command(self, c.ID, "--confirm", sp)
				cmd.Env = append(os.Environ(), "GOMAXPROCS=1", "GORACE=halt_on_error=0 exitcode=0 log_path="+rl, "VERIF_RACELOG="+rl)
				outb, err := cmd.Output()
				var res struct {
					Sig   string
					Trace []string
					Hash  uint64
				}
				// a fresh process may report the same defect through its other face (detector report vs. the panic
				// it leads to): any C19 violation of the same schedule confirms it
				if err == nil && json.Unmarshal(outb, &res) == nil && res.Sig != "" && res.Sig != f.V.Sig && i == 0 {
					f.V.Msg += fmt.Sprintf(" [a fresh process reports this schedule as %q]", res.Sig)
					f.V.Sig = res.Sig
				}
				if err != nil || res.Sig == "" || res.Sig != f.V.Sig {
					fmt.Fprintf(os.Stderr, "confirm run %d: err=%v sig=%q want %q out=%.200s\n", i, err, res.Sig, f.V.Sig, outb)
					ok = false
					break
				}
				if i == 0 {
					h0, trace = res.Hash, res.Trace
					if b, err := os.ReadFile(fmt.Sprintf("%s.%d", rl, cmd.Process.Pid)); err == nil {
						trace = append(trace, "---- race detector report ----")
						trace = append(trace, strings.Split(string(b), "\n")...)
					}
				}
			}
			if !ok {
				fmt.Fprintf(os.Stderr, "machinery error: race %q of %s does not replay deterministically\n", f.V.Sig, f.Scenario)
				return 2
			}
			if f.V.Sig != key {
				if printed[f.V.Sig] {
					continue // the confirmed face of this defect has been reported already
				}
				printed[f.V.Sig] = true
			}
		}
		if f.SetLevel {
			// a judgement about the set of executions: re-explore the whole scenario twice
			for i := 0; i < 2; i++ {
				st, again := explore.Explore(sc, explore.Options{})
				if len(again) != 1 || again[0].V.Sig != f.V.Sig {
					fmt.Fprintf(os.Stderr, "machinery error: set-level violation %q of %s does not reproduce\n", f.V.Sig, f.Scenario)
					return 2
				}
				trace = st.OutcomeList()
			}
		}
		for i := 0; i < 5 && c.ID != "C19" && !f.SetLevel; i++ {
			ex, _, v := explore.RunOnce(sc, f.Prefix, true)
			if v == nil || v.Sig != f.V.Sig {
				fmt.Fprintf(os.Stderr, "machinery error: violation %q of %s does not replay deterministically\n", f.V.Sig, f.Scenario)
				return 2
			}
			if i == 0 {
				h0 = ex.TraceHash
				trace = ex.Trace
			} else if ex.TraceHash != h0 {
				fmt.Fprintf(os.Stderr, "machinery error: replay of %s diverged (trace hash)\n", f.Scenario)
				return 2
			}
		}
		f.Trace = trace
		if what, ok := known.match(c.ID, f.V.Sig); ok {
			fmt.Printf("KNOWN-FINDING: property=%s %s [%s]\n", c.ID, what, f.V.Sig)
			continue
		}
		engine := "sched"
		if f.SetLevel {
			engine = "sched-set"
		}
		path := writeReplay(c.ID, map[string]any{"property": c.ID, "engine": engine, "tier": tier, "scenario": f.Scenario,
			"prefix": f.Prefix, "sig": f.V.Sig, "msg": f.V.Msg, "trace": trace})
		fmt.Printf("VIOLATION property=%s replay=%s\n", c.ID, path)
		fmt.Fprintf(os.Stderr, "  %s: %s\n", f.Scenario, f.V.Msg)
		nviol++
		exit = 1
	}
	sort.Slice(seq.Violations, func(i, j int) bool { return len(seq.Violations[i].History) < len(seq.Violations[j].History) })
	for _, v := range seq.Violations {
		if printed[v.Sig] {
			continue
		}
		printed[v.Sig] = true
		if what, ok := known.match(c.ID, v.Sig); ok {
			fmt.Printf("KNOWN-FINDING: property=%s %s [%s]\n", c.ID, what, v.Sig)
			continue
		}
		path := writeReplay(c.ID, map[string]any{"property": c.ID, "engine": "seq", "tier": tier, "family": v.Family,
			"sig": v.Sig, "msg": v.Msg, "history": v.History})
		fmt.Printf("VIOLATION property=%s replay=%s\n", c.ID, path)
		fmt.Fprintf(os.Stderr, "  %s: %s\n    history: %s\n", v.Family, v.Msg, v.History)
		nviol++
		exit = 1
	}
	// evidence
	var scen []scenEvidence
	var states, trans, execs, horizon int64
	outcomes := 0
	exhaustive := true
	var samples []any
	names := make([]string, 0, len(merged))
	for n := range merged {
		names = append(names, n)
	}
	sort.Strings(names)
	boundMax := ""
	for _, n := range names {
		st := merged[n]
		sc := scByName[n]
		b := "unbounded"
		if sc != nil && sc.Bound >= 0 {
			b = fmt.Sprintf("%d deviations", sc.Bound)
		}
		boundMax = b
		ol := st.OutcomeList()
		if len(ol) > 12 {
			ol = ol[:12]
		}
		scen = append(scen, scenEvidence{Name: n, Bound: b, Executions: st.Execs, States: st.States, Transitions: st.Transitions,
			Outcomes: len(st.Outcomes), OutcomeList: ol, Conflicting: st.Conflicting, HorizonHits: st.HorizonHits, Pruned: st.Pruned,
			MaxPoints: st.MaxPoints, MaxThreads: st.MaxThreads, Exhaustive: !st.Truncated})
		states += st.States
		trans += st.Transitions
		execs += st.Execs
		horizon += st.HorizonHits
		if st.Conflicting > 0 || st.MaxThreads <= 1 {
			outcomes += len(st.Outcomes)
		}
		if st.Truncated {
			exhaustive = false
		}
		for _, s := range st.Sample {
			if len(samples) < 6 {
				samples = append(samples, n+": "+s)
			}
		}
	}
	if c.Seq != nil {
		states += seq.States
		trans += seq.Transitions
		execs += seq.Evaluations
		outcomes += len(seq.Outcomes)
		if seq.Truncated {
			exhaustive = false
		}
		for _, s := range seq.Samples {
			samples = append(samples, s)
		}
	}
	if len(samples) == 0 {
		samples = append(samples, "none")
	}
	cov := map[string]any{
		"states":                        states,
		"transitions":                   trans,
		"traces_validated_against_impl": execs,
		"evaluations":                   execs,
		"distinct_nontrivial":           outcomes,
		"rule":                          c.Rule,
		"samples":                       samples,
		"exhaustive":                    exhaustive,
		"horizon_hits":                  horizon,
		"workers":                       shards,
	}
	if len(scen) > 0 {
		cov["scenarios"] = scen
		cov["bound"] = boundMax
	}
	if c.Seq != nil {
		cov["seq_families"] = seq.Families
		cov["seq_states"] = seq.States
		cov["seq_histories"] = seq.Evaluations
	}
	ev := map[string]any{
		"property_id": c.ID,
		"tier":        tier,
		"seed":        seed,
		"level":       "model_checking",
		"coverage":    cov,
		"assumptions": c.Assumptions,
		"wall_s":      time.Since(start).Seconds(),
		"violations":  nviol,
	}
	b, _ := json.MarshalIndent(ev, "", " ")
	evdir := filepath.Join(verifRoot(), "evidence")
	if v := os.Getenv("VERIF_EVIDENCE_DIR"); v != "" {
		evdir = v // runs against a scratch copy (mutants, seeded changes) must not overwrite the evidence of the real tree
	}
	_ = os.MkdirAll(evdir, 0o755)
	if err := os.WriteFile(filepath.Join(evdir, c.ID+".json"), b, 0o644); err != nil {
		fmt.Fprintln(os.Stderr, err)
		return 2
	}
	fmt.Fprintf(os.Stderr, "%s %s: executions=%d states=%d transitions=%d outcomes=%d exhaustive=%v violations=%d wall=%.1fs\n",
		c.ID, tier, execs, states, trans, outcomes, exhaustive, nviol, time.Since(start).Seconds())
	return exit
}

func writeReplay(id string, m map[string]any) string {
	b, _ := json.MarshalIndent(m, "", " ")
	h := sha1.Sum([]byte(fmt.Sprint(m["sig"], m["scenario"], m["family"])))
	dir := filepath.Join(verifRoot(), "replays")
	_ = os.MkdirAll(dir, 0o755)
	p := filepath.Join(dir, fmt.Sprintf("%s-%x.json", id, h[:5]))
	_ = os.WriteFile(p, b, 0o644)
	return p
}

func replay(c *Check, path string) int {
	b, err := os.ReadFile(path)
	if err != nil {
		fmt.Fprintln(os.Stderr, err)
		return 2
	}
	var m struct {
		Engine   string `json:"engine"`
		Tier     string `json:"tier"`
		Scenario string `json:"scenario"`
		Prefix   []int  `json:"prefix"`
		Sig      string `json:"sig"`
		Family   string `json:"family"`
		History  string `json:"history"`
	}
	if err := json.Unmarshal(b, &m); err != nil {
		fmt.Fprintln(os.Stderr, err)
		return 2
	}
	if m.Engine == "seq" {
		rep := &SeqReport{}
		replayFamily, replaySig = m.Family, m.Sig
		c.Seq(m.Tier, 0, 1, rep)
		for _, v := range rep.Violations {
			if v.Sig == m.Sig {
				fmt.Printf("VIOLATION property=%s replay=%s\n  %s\n  history: %s\n", c.ID, path, v.Msg, v.History)
				return 1
			}
		}
		fmt.Println("replay: violation not reproduced")
		return 0
	}
	for _, tier := range []string{m.Tier, "quick", "thorough"} {
		for _, sc := range scenariosOf(c, tier) {
			if sc.Name != m.Scenario {
				continue
			}
			if m.Engine == "sched-set" {
				st, found := explore.Explore(sc, explore.Options{})
				fmt.Println(strings.Join(st.OutcomeList(), "\n"))
				for _, f := range found {
					fmt.Printf("VIOLATION property=%s replay=%s\n  %s\n", c.ID, path, f.V.Msg)
					return 1
				}
				fmt.Println("replay: no violation")
				return 0
			}
			ex, out, v := explore.RunOnce(sc, m.Prefix, true)
			fmt.Println(strings.Join(ex.Trace, "\n"))
			fmt.Println("outcome:", out)
			if v != nil {
				fmt.Printf("VIOLATION property=%s replay=%s\n  %s\n", c.ID, path, v.Msg)
				return 1
			}
			fmt.Println("replay: no violation")
			return 0
		}
	}
	fmt.Fprintln(os.Stderr, "replay: scenario not found:", m.Scenario)
	return 2
}

var replayFamily, replaySig string

func main() {
	if len(os.Args) < 3 {
		fmt.Fprintln(os.Stderr, "usage: vharness <ID> <quick|thorough> | <ID> --replay <file>")
		os.Exit(2)
	}
	c := registry[os.Args[1]]
	if c == nil {
		fmt.Fprintln(os.Stderr, "unknown property", os.Args[1])
		os.Exit(2)
	}
	if os.Args[2] == "--replay" {
		os.Exit(replay(c, os.Args[3]))
	}
	if os.Args[2] == "--confirm" {
		b, _ := os.ReadFile(os.Args[3])
		var m struct {
			Tier     string `json:"tier"`
			Scenario string `json:"scenario"`
			Prefix   []int  `json:"prefix"`
		}
		_ = json.Unmarshal(b, &m)
		for _, sc := range scenariosOf(c, m.Tier) {
			if sc.Name == m.Scenario {
				ex, _, v := explore.RunOnce(sc, m.Prefix, true)
				// A cold process orders goroutines through one-time initialisation inside the standard
				// library (sync.Once, type caches): if the report does not appear, warm up and retry.
				for try := 0; v == nil && try < 3; try++ {
					if _, _, vw := explore.RunOnce(sc, nil, false); vw != nil {
						v = vw // the detector reports a pair of stacks only once per process
						break
					}
					ex, _, v = explore.RunOnce(sc, m.Prefix, true)
				}
				res := map[string]any{"Sig": "", "Trace": ex.Trace, "Hash": ex.TraceHash}
				if v != nil {
					res["Sig"] = v.Sig
				}
				ob, _ := json.Marshal(res)
				os.Stdout.Write(ob)
				os.Exit(0)
			}
		}
		os.Exit(2)
	}
	tier := os.Args[2]
	if len(os.Args) >= 7 && os.Args[3] == "--worker" {
		var k, n int
		fmt.Sscanf(os.Args[4], "%d/%d", &k, &n)
		runWorker(c, tier, k, n, os.Args[6])
		profStop()
		return
	}
	os.Exit(coordinator(c, tier))
}
