package main

import (
	"context"
	"errors"
	"fmt"
	"net"
	"sort"
	"time"

	"github.com/pion/transport/v3/connctx"
	"github.com/pion/transport/v3/netctx"
	"github.com/pion/transport/v3/zzvsched"
	"verifharness/explore"
)

// C17 — context cancellation of I/O loses no data and leaves the connection usable.

type ctxIO struct {
	read  func(ctx context.Context, b []byte) (int, error)
	write func(ctx context.Context, b []byte) (int, error)
	close func() error
}

func wrapCtx(kind string, f *fakeConn) ctxIO {
	switch kind {
	case "netctx.Conn":
		c := netctx.NewConn(f)
		return ctxIO{c.ReadContext, c.WriteContext, c.Close}
	case "connctx":
		c := connctx.New(f)
		return ctxIO{c.ReadContext, c.WriteContext, c.Close}
	case "netctx.PacketConn":
		c := netctx.NewPacketConn(f)
		return ctxIO{
			func(ctx context.Context, b []byte) (int, error) {
				n, _, err := c.ReadFromContext(ctx, b)
				return n, err
			},
			func(ctx context.Context, b []byte) (int, error) { return c.WriteToContext(ctx, b, fakeAddr("peer")) },
			c.Close,
		}
	}
	panic(kind)
}

func c17scenario(kind, dir string, bound int, peerSlow bool, silent ...bool) *explore.Scenario {
	name := fmt.Sprintf("%s %s-cancel", kind, dir)
	if peerSlow {
		name += " slow-peer"
	}
	peerSilent := len(silent) > 0 && silent[0]
	if peerSilent {
		name += " silent-peer"
	}
	ctxDeadline := len(silent) > 1 && silent[1]
	if ctxDeadline {
		name += " ctx-with-deadline"
	}
	packet := kind == "netctx.PacketConn"
	sc := &explore.Scenario{Name: name, Bound: bound}
	sc.Cfg.Horizon = 10 * time.Second
	sc.Make = func() (func(), func(*zzvsched.Exec) (string, *explore.Violation)) {
		var a *fakeConn
		var n1, n2 int
		var e1, e2 error
		op1done, op2done := false, false
		cancelled := false
		var recv [][]byte // what the far side obtained, per read
		var sent [][]byte
		body := func() {
			var b *fakeConn
			capa := 4
			if packet {
				capa = 1
			}
			a, b = newFakePair(packet, capa)
			w := wrapCtx(kind, a)
			ctx1, cancel1 := zzvsched.WithCancel()
			ctx2, _ := zzvsched.WithCancel()
			if ctxDeadline {
				// the context has a deadline an hour away but is cancelled long before it
				ctx1.DL = zzvsched.Base.Add(time.Hour)
				ctx2.DL = zzvsched.Base.Add(2 * time.Hour)
			}
			if dir == "write" {
				msg1, msg2 := []byte("abcdef"), []byte("XY")
				zzvsched.GoNamed("op", func() {
					n1, e1 = w.write(ctx1, msg1)
					op1done = true
					n2, e2 = w.write(ctx2, msg2)
					op2done = true
				})
				zzvsched.GoNamed("peer", func() {
					if peerSilent {
						return
					}
					if peerSlow {
						zzvsched.Sleep(time.Millisecond)
					}
					for {
						buf := make([]byte, 8)
						if !packet {
							buf = buf[:3]
						}
						n, err := b.Read(buf)
						if err != nil {
							return
						}
						recv = append(recv, buf[:n])
					}
				})
				sent = [][]byte{msg1, msg2}
			} else {
				zzvsched.GoNamed("op", func() {
					buf := make([]byte, 8)
					n1, e1 = w.read(ctx1, buf)
					op1done = true
					if n1 > 0 {
						recv = append(recv, append([]byte(nil), buf[:n1]...))
					}
					// probe with a live context, then keep reading what the peer sent
					for i := 0; i < 3; i++ {
						buf2 := make([]byte, 8)
						n, err := w.read(ctx2, buf2)
						if i == 0 {
							n2, e2 = n, err
							op2done = true
						}
						if err != nil {
							return
						}
						recv = append(recv, buf2[:n])
					}
				})
				zzvsched.GoNamed("peer", func() {
					if peerSilent {
						return
					}
					if peerSlow {
						zzvsched.Sleep(time.Millisecond)
					}
					for _, m := range [][]byte{[]byte("abc"), []byte("Z")} {
						if _, err := b.Write(m); err != nil {
							return
						}
						sent = append(sent, m)
					}
				})
			}
			zzvsched.GoNamed("canceller", func() {
				cancel1()
				cancelled = true
			})
		}
		check := func(ex *zzvsched.Exec) (string, *explore.Violation) {
			flat := func(ms [][]byte) string {
				s := ""
				for _, m := range ms {
					s += string(m)
					if packet {
						s += "|"
					}
				}
				return s
			}
			out := fmt.Sprintf("op1=(%d,%v) op2=(%d,%v) recv=%q", n1, errShort(e1), n2, errShort(e2), flat(recv))
			pre := name + ": "
			if len(ex.Panics) > 0 {
				return out, &explore.Violation{Sig: "C17 panic", Msg: pre + "panic: " + ex.Panics[0].Value + "\n" + ex.Panics[0].Stack}
			}
			if ex.HorizonHit {
				return out + " HORIZON", nil
			}
			if !op1done {
				if cancelled {
					return out, &explore.Violation{Sig: "C17 cancelled-op-still-blocked " + kind, Msg: pre + fmt.Sprintf("the context was cancelled but the %s operation never returned: %v", dir, ex.Parked)}
				}
				return out, nil
			}
			if isCtxErr(e1) && n1 != 0 {
				return out, &explore.Violation{Sig: "C17 ctx-error-with-bytes " + kind, Msg: pre + fmt.Sprintf("operation returned the context error together with n=%d", n1)}
			}
			if e1 == nil && dir == "write" && n1 != 6 {
				return out, &explore.Violation{Sig: "C17 short-write-without-error " + kind, Msg: pre + fmt.Sprintf("WriteContext returned (%d, nil)", n1)}
			}
			if len(a.SetRD) > 0 && !a.rdl.IsZero() || len(a.SetWD) > 0 && !a.wdl.IsZero() {
				return out, &explore.Violation{Sig: "C17 leftover-deadline " + kind, Msg: pre + fmt.Sprintf("at quiescence the wrapped connection still carries a deadline (read %v, write %v)", a.rdl, a.wdl)}
			}
			if peerSilent {
				if dir == "read" && !(n1 == 0 && isCtxErr(e1)) {
					return out, &explore.Violation{Sig: "C17 silent-read-result " + kind, Msg: pre + fmt.Sprintf("nothing was ever sent, the context was cancelled, yet the read returned (%d, %v)", n1, e1)}
				}
				return out, nil // the probe legitimately waits for a peer that never acts
			}
			if !op2done && dir == "read" && flat(recv) == flat(sent) {
				return out, nil // the first read returned everything the peer wrote; the probe legitimately waits
			}
			if !op2done {
				return out, &explore.Violation{Sig: "C17 probe-blocked " + kind, Msg: pre + fmt.Sprintf("the next %s with a live context never returned: %v", dir, ex.Parked)}
			}
			if e2 != nil {
				return out, &explore.Violation{Sig: "C17 probe-failed " + kind, Msg: pre + fmt.Sprintf("the next %s with a live context failed: (%d, %v)", dir, n2, e2)}
			}
			// conservation
			if dir == "write" {
				var want string
				if packet {
					if n1 == 6 {
						want += "abcdef|"
					} else if n1 != 0 {
						return out, &explore.Violation{Sig: "C17 partial-datagram " + kind, Msg: pre + fmt.Sprintf("WriteToContext reported n=%d of a 6-byte datagram", n1)}
					}
					if n2 == 2 {
						want += "XY|"
					}
				} else {
					want = "abcdef"[:n1] + "XY"[:n2]
				}
				if flat(recv) != want {
					return out, &explore.Violation{Sig: "C17 bytes-not-conserved " + kind, Msg: pre + fmt.Sprintf("writes reported n=%d and n=%d, i.e. %q, but the peer received %q", n1, n2, want, flat(recv))}
				}
			} else {
				if flat(recv) != flat(sent) {
					return out, &explore.Violation{Sig: "C17 bytes-not-conserved " + kind, Msg: pre + fmt.Sprintf("the peer wrote %q but the reads returned %q (first read: n=%d err=%v)", flat(sent), flat(recv), n1, e1)}
				}
			}
			return out, nil
		}
		return body, check
	}
	return sc
}

// c17concurrent: TWO threads use the same wrapped connection at the same time (the wrappers serialise
// them); the context of one is cancelled, the other's stays live.  The live operation must never fail
// with a context or timeout error, and every byte is accounted for.
func c17concurrent(kind, dir string, bound int, background ...bool) *explore.Scenario {
	name := fmt.Sprintf("%s two concurrent %ss, one cancelled", kind, dir)
	liveBackground := len(background) > 0 && background[0]
	if liveBackground {
		name += ", the live one with context.Background()"
	}
	packet := kind == "netctx.PacketConn"
	sc := &explore.Scenario{Name: name, Bound: bound}
	sc.Cfg.Horizon = 10 * time.Second
	sc.Make = func() (func(), func(*zzvsched.Exec) (string, *explore.Violation)) {
		var a *fakeConn
		var n1 int
		var e1 error
		var liveErrs []error
		var liveNs []int
		op1done, cancelled := false, false
		liveDone := 0
		var recv, sent [][]byte
		body := func() {
			var b *fakeConn
			capa := 4
			if packet {
				capa = 1
			}
			a, b = newFakePair(packet, capa)
			w := wrapCtx(kind, a)
			ctx1, cancel1 := zzvsched.WithCancel()
			var ctx2 context.Context
			ctx2, _ = zzvsched.WithCancel()
			if liveBackground {
				ctx2 = context.Background() // never cancellable: Done() is a nil channel
			}
			if dir == "read" {
				zzvsched.GoNamed("opA", func() {
					buf := make([]byte, 8)
					n1, e1 = w.read(ctx1, buf)
					if n1 > 0 {
						recv = append(recv, append([]byte(nil), buf[:n1]...))
					}
					op1done = true
				})
				zzvsched.GoNamed("opB", func() {
					for i := 0; i < 2; i++ {
						buf := make([]byte, 8)
						n, err := w.read(ctx2, buf)
						liveNs, liveErrs = append(liveNs, n), append(liveErrs, err)
						liveDone++
						if err != nil {
							return
						}
						recv = append(recv, buf[:n])
					}
				})
				zzvsched.GoNamed("peer", func() {
					for _, m := range [][]byte{[]byte("abc"), []byte("Z")} {
						if _, err := b.Write(m); err != nil {
							return
						}
						sent = append(sent, m)
					}
				})
			} else {
				zzvsched.GoNamed("opA", func() {
					n1, e1 = w.write(ctx1, []byte("abcdef"))
					op1done = true
				})
				zzvsched.GoNamed("opB", func() {
					n, err := w.write(ctx2, []byte("XY"))
					liveNs, liveErrs = append(liveNs, n), append(liveErrs, err)
					liveDone++
				})
				zzvsched.GoNamed("peer", func() {
					for {
						buf := make([]byte, 8)
						if !packet {
							buf = buf[:3]
						}
						n, err := b.Read(buf)
						if err != nil {
							return
						}
						recv = append(recv, buf[:n])
					}
				})
			}
			zzvsched.GoNamed("canceller", func() {
				cancel1()
				cancelled = true
			})
		}
		check := func(ex *zzvsched.Exec) (string, *explore.Violation) {
			bytesOf := func(ms [][]byte) string {
				var all []byte
				for _, m := range ms {
					all = append(all, m...)
				}
				sort.Slice(all, func(i, j int) bool { return all[i] < all[j] })
				return string(all)
			}
			out := fmt.Sprintf("A=(%d,%v) B=%v/%v recv=%q", n1, errShort(e1), liveNs, liveErrs, recv)
			pre := name + ": "
			if len(ex.Panics) > 0 {
				return out, &explore.Violation{Sig: "C17 panic", Msg: pre + "panic: " + ex.Panics[0].Value + "\n" + ex.Panics[0].Stack}
			}
			if ex.HorizonHit {
				return out + " HORIZON", nil
			}
			for i, err := range liveErrs {
				if err != nil {
					return out, &explore.Violation{Sig: "C17 live-op-failed " + kind, Msg: pre + fmt.Sprintf("%s #%d of the thread whose context is live failed: (%d, %v)", dir, i+1, liveNs[i], err)}
				}
			}
			queued := false // still waiting for the wrapper's per-direction mutex behind the live operation: it has not begun
			for _, pk := range ex.Parked {
				if pk.Name == "opA" && pk.Op == "lock" {
					queued = true
				}
			}
			if !op1done && cancelled && !queued {
				return out, &explore.Violation{Sig: "C17 cancelled-op-still-blocked " + kind, Msg: pre + fmt.Sprintf("the context was cancelled but the %s never returned: %v", dir, ex.Parked)}
			}
			if op1done && isCtxErr(e1) && n1 != 0 {
				return out, &explore.Violation{Sig: "C17 ctx-error-with-bytes " + kind, Msg: pre + fmt.Sprintf("operation returned the context error together with n=%d", n1)}
			}
			if dir == "read" {
				if bytesOf(recv) != bytesOf(sent) {
					if liveDone < 2 || len(sent) < 2 {
						return out, &explore.Violation{Sig: "C17 bytes-not-conserved " + kind, Msg: pre + fmt.Sprintf("the peer wrote %q, the two readers obtained %q, and at quiescence a reader with a live context is still waiting: %v", sent, recv, ex.Parked)}
					}
					return out, &explore.Violation{Sig: "C17 bytes-not-conserved " + kind, Msg: pre + fmt.Sprintf("the peer wrote %q but the two readers obtained %q", sent, recv)}
				}
			} else {
				if liveDone < 1 {
					return out, &explore.Violation{Sig: "C17 probe-blocked " + kind, Msg: pre + fmt.Sprintf("the write with a live context never returned: %v", ex.Parked)}
				}
				if liveNs[0] != 2 {
					return out, &explore.Violation{Sig: "C17 short-write-without-error " + kind, Msg: pre + fmt.Sprintf("live write returned (%d, nil)", liveNs[0])}
				}
				if packet && n1 != 0 && n1 != 6 {
					return out, &explore.Violation{Sig: "C17 partial-datagram " + kind, Msg: pre + fmt.Sprintf("WriteToContext reported n=%d of a 6-byte datagram", n1)}
				}
				want := [][]byte{[]byte("abcdef")[:n1], []byte("XY")}
				if bytesOf(recv) != bytesOf(want) {
					return out, &explore.Violation{Sig: "C17 bytes-not-conserved " + kind, Msg: pre + fmt.Sprintf("the writes reported %d and 2 bytes but the peer received %q", n1, recv)}
				}
			}
			if len(ex.Parked) == 0 || dir == "write" {
				if len(a.SetRD) > 0 && !a.rdl.IsZero() || len(a.SetWD) > 0 && !a.wdl.IsZero() {
					return out, &explore.Violation{Sig: "C17 leftover-deadline " + kind, Msg: pre + fmt.Sprintf("at quiescence the wrapped connection still carries a deadline (read %v, write %v)", a.rdl, a.wdl)}
				}
			}
			return out, nil
		}
		return body, check
	}
	return sc
}

// c17bothDirections: a read and a write run on the same wrapped connection at the same time and BOTH
// contexts are cancelled (in either order): each direction's cancellation must not
// disturb the other one - both return promptly, no deadline is left, written bytes are conserved.
func c17bothDirections(kind string, bound int) *explore.Scenario {
	name := fmt.Sprintf("%s read and write concurrently, both cancelled", kind)
	packet := kind == "netctx.PacketConn"
	sc := &explore.Scenario{Name: name, Bound: bound}
	sc.Cfg.Horizon = 10 * time.Second
	sc.Make = func() (func(), func(*zzvsched.Exec) (string, *explore.Violation)) {
		var a *fakeConn
		var nr, nw int
		var er, ew error
		rdone, wdone := false, false
		c1, c2 := false, false
		body := func() {
			var b *fakeConn
			capa := 4
			if packet {
				capa = 1
			}
			a, b = newFakePair(packet, capa)
			w := wrapCtx(kind, a)
			ctxR, cancelR := zzvsched.WithCancel()
			ctxW, cancelW := zzvsched.WithCancel()
			zzvsched.GoNamed("reader", func() {
				nr, er = w.read(ctxR, make([]byte, 8))
				rdone = true
			})
			zzvsched.GoNamed("writer", func() {
				// two writes: the second finds the queue/pipe full unless the peer reads
				n1, e1 := w.write(ctxW, []byte("abcd"))
				nw, ew = n1, e1
				if e1 == nil {
					n2, e2 := w.write(ctxW, []byte("efgh"))
					nw, ew = n1+n2, e2
				}
				wdone = true
			})
			_ = b
			zzvsched.GoNamed("canceller", func() {
				if zzvsched.Choose(2) == 0 {
					cancelR()
					c1 = true
					cancelW()
					c2 = true
				} else {
					cancelW()
					c2 = true
					cancelR()
					c1 = true
				}
			})
		}
		check := func(ex *zzvsched.Exec) (string, *explore.Violation) {
			flat := string(a.out.bytes) // what the writes put into the pipe towards the (silent) peer
			for _, m := range a.out.msgs {
				flat += string(m)
			}
			out := fmt.Sprintf("read=(%d,%v) write=(%d,%v) peer=%q", nr, errShort(er), nw, errShort(ew), flat)
			pre := name + ": "
			if len(ex.Panics) > 0 {
				return out, &explore.Violation{Sig: "C17 panic", Msg: pre + "panic: " + ex.Panics[0].Value + "\n" + ex.Panics[0].Stack}
			}
			if ex.HorizonHit {
				return out + " HORIZON", nil
			}
			if c1 && !rdone {
				return out, &explore.Violation{Sig: "C17 cancelled-op-still-blocked " + kind, Msg: pre + fmt.Sprintf("the read's context was cancelled but the read never returned: %v", ex.Parked)}
			}
			if c2 && !wdone {
				return out, &explore.Violation{Sig: "C17 cancelled-op-still-blocked " + kind, Msg: pre + fmt.Sprintf("the write's context was cancelled but the write never returned: %v", ex.Parked)}
			}
			if rdone && !(nr == 0 && isCtxErr(er)) {
				return out, &explore.Violation{Sig: "C17 silent-read-result " + kind, Msg: pre + fmt.Sprintf("nothing was ever sent to the reader, its context was cancelled, yet the read returned (%d, %v)", nr, er)}
			}
			if wdone && ew != nil && !isCtxErr(ew) {
				return out, &explore.Violation{Sig: "C17 write-error " + kind, Msg: pre + fmt.Sprintf("the write failed with %v, which is neither success nor the context's error", ew)}
			}
			if wdone && flat != "abcdefgh"[:nw] {
				return out, &explore.Violation{Sig: "C17 bytes-not-conserved " + kind, Msg: pre + fmt.Sprintf("the writes reported %d bytes but the peer received %q", nw, flat)}
			}
			if len(a.SetRD) > 0 && !a.rdl.IsZero() || len(a.SetWD) > 0 && !a.wdl.IsZero() {
				return out, &explore.Violation{Sig: "C17 leftover-deadline " + kind, Msg: pre + fmt.Sprintf("at quiescence the wrapped connection still carries a deadline (read %v, write %v)", a.rdl, a.wdl)}
			}
			return out, nil
		}
		return body, check
	}
	return sc
}

// c17oneParked: one direction of the wrapped connection is parked on a live context that is never cancelled
// (a reader nothing is sent to, or a writer whose pipe is full and whose peer never reads); an operation in
// the OTHER direction - its context live, or cancelled by a separate thread at any point - must still return
// and behave like the wrapped connection.  The two directions share nothing but the connection.
func c17oneParked(kind, parked string, bound int) *explore.Scenario {
	name := fmt.Sprintf("%s: a %s parked on a live context, the other direction operates", kind, parked)
	packet := kind == "netctx.PacketConn"
	sc := &explore.Scenario{Name: name, Bound: bound}
	sc.Cfg.Horizon = 10 * time.Second
	sc.Make = func() (func(), func(*zzvsched.Exec) (string, *explore.Violation)) {
		var a *fakeConn
		var nr, nw int
		var er, ew error
		var got string
		rdone, wdone, cancelled := false, false, false
		body := func() {
			var b *fakeConn
			capa := 4
			if packet {
				capa = 1
			}
			a, b = newFakePair(packet, capa)
			w := wrapCtx(kind, a)
			live, _ := zzvsched.WithCancel() // never cancelled
			ctxO, cancelO := zzvsched.WithCancel()
			if parked == "reader" {
				zzvsched.GoNamed("reader", func() {
					nr, er = w.read(live, make([]byte, 8))
					rdone = true
				})
				zzvsched.GoNamed("writer", func() {
					nw, ew = w.write(ctxO, []byte("abcd")) // the pipe has room for it
					wdone = true
				})
			} else {
				_, _ = b.Write([]byte("xy")) // waiting for the reader
				if n, err := w.write(live, []byte("abcd")); n != 4 || err != nil {
					panic(fmt.Sprintf("filling write returned (%d,%v)", n, err))
				}
				zzvsched.GoNamed("writer", func() {
					nw, ew = w.write(live, []byte("efgh")) // pipe full, the peer never reads: parks
					wdone = true
				})
				zzvsched.GoNamed("reader", func() {
					buf := make([]byte, 8)
					nr, er = w.read(ctxO, buf)
					got = string(buf[:nr])
					rdone = true
				})
			}
			zzvsched.GoNamed("canceller", func() {
				if zzvsched.Choose(2) == 1 {
					cancelO()
					cancelled = true
				}
			})
		}
		check := func(ex *zzvsched.Exec) (string, *explore.Violation) {
			out := fmt.Sprintf("cancelled=%v read=(%d,%v,%v) write=(%d,%v,%v)", cancelled, nr, errShort(er), rdone, nw, errShort(ew), wdone)
			pre := name + ": "
			if len(ex.Panics) > 0 {
				return out, &explore.Violation{Sig: "C17 panic", Msg: pre + "panic: " + ex.Panics[0].Value + "\n" + ex.Panics[0].Stack}
			}
			if ex.HorizonHit {
				return out + " HORIZON", nil
			}
			if parked == "reader" {
				if rdone {
					return out, &explore.Violation{Sig: "C17 silent-read-result " + kind, Msg: pre + fmt.Sprintf("nothing was sent to the reader and its context is live, yet the read returned (%d, %v)", nr, er)}
				}
				if !wdone {
					return out, &explore.Violation{Sig: "C17 other-direction-blocked " + kind, Msg: pre + fmt.Sprintf("the write (pipe has room, context cancelled=%v) never returned while a read is parked on the same connection: %v", cancelled, ex.Parked)}
				}
				flat := string(a.out.bytes)
				for _, m := range a.out.msgs {
					flat += string(m)
				}
				if !(nw == 4 && ew == nil) && !(cancelled && nw == 0 && isCtxErr(ew)) {
					return out, &explore.Violation{Sig: "C17 write-result " + kind, Msg: pre + fmt.Sprintf("the write returned (%d, %v) (context cancelled=%v)", nw, ew, cancelled)}
				}
				if flat != "abcd"[:nw] {
					return out, &explore.Violation{Sig: "C17 bytes-not-conserved " + kind, Msg: pre + fmt.Sprintf("the write reported %d bytes but the peer received %q", nw, flat)}
				}
			} else {
				if wdone {
					return out, &explore.Violation{Sig: "C17 blocked-write-result " + kind, Msg: pre + fmt.Sprintf("the pipe is full, nobody reads and the context is live, yet the write returned (%d, %v)", nw, ew)}
				}
				if !rdone {
					return out, &explore.Violation{Sig: "C17 other-direction-blocked " + kind, Msg: pre + fmt.Sprintf("the read (data waiting, context cancelled=%v) never returned while a write is parked on the same connection: %v", cancelled, ex.Parked)}
				}
				if !(nr == 2 && er == nil && got == "xy") && !(cancelled && nr == 0 && isCtxErr(er)) {
					return out, &explore.Violation{Sig: "C17 read-result " + kind, Msg: pre + fmt.Sprintf("the read returned (%d, %v, %q) (context cancelled=%v), want the waiting \"xy\"", nr, er, got, cancelled)}
				}
			}
			return out, nil
		}
		return body, check
	}
	return sc
}

// c17closing: the "cancel(); conn.Close()" idiom - an operation is in flight, its context is cancelled and
// the connection is closed (by this side through the wrapper, or by the peer), in either order and at every
// point.  The operation returns, Close returns, and a later operation with a live context fails promptly
// instead of hanging.
func c17closing(kind, dir string, peerCloses bool, bound int) *explore.Scenario {
	name := fmt.Sprintf("%s %s in flight, cancelled and closed", kind, dir)
	if peerCloses {
		name += " by the peer"
	}
	packet := kind == "netctx.PacketConn"
	sc := &explore.Scenario{Name: name, Bound: bound}
	sc.Cfg.Horizon = 10 * time.Second
	sc.Make = func() (func(), func(*zzvsched.Exec) (string, *explore.Violation)) {
		var n1, n2 int
		var e1, e2 error
		op1done, op2done, closeDone, cancelled := false, false, false, false
		body := func() {
			capa := 4
			if packet {
				capa = 1
			}
			a, b := newFakePair(packet, capa)
			w := wrapCtx(kind, a)
			ctx1, cancel1 := zzvsched.WithCancel()
			ctx2, _ := zzvsched.WithCancel()
			zzvsched.GoNamed("op", func() {
				if dir == "read" {
					n1, e1 = w.read(ctx1, make([]byte, 8))
				} else {
					n1, e1 = w.write(ctx1, []byte("abcdefgh")) // more than the pipe holds: blocks
					if packet && e1 == nil {
						n1, e1 = w.write(ctx1, []byte("second")) // the one-datagram queue is full now
					}
				}
				op1done = true
			})
			zzvsched.GoNamed("canceller", func() {
				cancel1()
				cancelled = true
			})
			zzvsched.GoNamed("closer", func() {
				if peerCloses {
					_ = b.Close()
				} else {
					_ = w.close()
				}
				closeDone = true
			})
			zzvsched.WaitIdle()
			if !peerCloses && op1done && closeDone {
				// the connection is closed: an operation with a live context must fail at once, not hang
				zzvsched.GoNamed("probe", func() {
					if dir == "read" {
						n2, e2 = w.read(ctx2, make([]byte, 8))
					} else {
						n2, e2 = w.write(ctx2, []byte("zz"))
					}
					op2done = true
				})
			} else {
				op2done = true
				e2 = net.ErrClosed
			}
		}
		check := func(ex *zzvsched.Exec) (string, *explore.Violation) {
			out := fmt.Sprintf("op=(%d,%v) probe=(%d,%v)", n1, errShort(e1), n2, errShort(e2))
			pre := name + ": "
			if len(ex.Panics) > 0 {
				return out, &explore.Violation{Sig: "C17 panic", Msg: pre + "panic: " + ex.Panics[0].Value + "\n" + ex.Panics[0].Stack}
			}
			if ex.HorizonHit {
				return out + " HORIZON", nil
			}
			if !closeDone {
				return out, &explore.Violation{Sig: "C17 close-blocked " + kind, Msg: pre + fmt.Sprintf("Close never returned: %v", ex.Parked)}
			}
			if !op1done && cancelled {
				return out, &explore.Violation{Sig: "C17 cancelled-op-still-blocked " + kind, Msg: pre + fmt.Sprintf("the context was cancelled and the connection closed, but the %s never returned: %v", dir, ex.Parked)}
			}
			if op1done && isCtxErr(e1) && n1 != 0 && !(dir == "write" && packet) {
				return out, &explore.Violation{Sig: "C17 ctx-error-with-bytes " + kind, Msg: pre + fmt.Sprintf("operation returned the context error together with n=%d", n1)}
			}
			if !op2done {
				return out, &explore.Violation{Sig: "C17 probe-blocked " + kind, Msg: pre + fmt.Sprintf("after Close, a %s with a live context never returned: %v", dir, ex.Parked)}
			}
			if e2 == nil {
				return out, &explore.Violation{Sig: "C17 probe-succeeded-on-closed " + kind, Msg: pre + fmt.Sprintf("after Close, a %s with a live context succeeded (n=%d)", dir, n2)}
			}
			return out, nil
		}
		return body, check
	}
	return sc
}

func isCtxErr(err error) bool {
	return errors.Is(err, context.Canceled) || errors.Is(err, context.DeadlineExceeded)
}

func errShort(err error) string {
	switch {
	case err == nil:
		return "nil"
	case errors.Is(err, context.Canceled):
		return "canceled"
	case isTimeout(err):
		return "timeout"
	}
	return err.Error()
}

func init() {
	register(&Check{ID: "C17", YieldOnRelease: true,
		Scenarios: func(tier string) []*explore.Scenario {
			var out []*explore.Scenario
			b := 3
			if tier == "thorough" {
				b = -1 // unbounded: closed by the happens-before state cache (about 150 k executions)
			}
			for _, k := range []string{"netctx.Conn", "netctx.PacketConn", "connctx"} {
				for _, d := range []string{"read", "write"} {
					out = append(out, c17scenario(k, d, b, false))
					if b > 0 {
						out = append(out, c17scenario(k, d, b-1, true))
					} else {
						out = append(out, c17scenario(k, d, b, true))
					}
					out = append(out, c17scenario(k, d, b, false, true))
					out = append(out, c17scenario(k, d, b, false, true, true))
					cb := 2
					if tier == "thorough" {
						cb = 3
					}
					out = append(out, c17concurrent(k, d, cb), c17concurrent(k, d, cb, true))
					if d == "read" {
						out = append(out, c17bothDirections(k, cb))
						out = append(out, c17oneParked(k, "reader", cb), c17oneParked(k, "writer", cb))
					}
					out = append(out, c17closing(k, d, false, cb), c17closing(k, d, true, cb))
				}
			}
			return out
		},
		Rule:        "for netctx.Conn, netctx.PacketConn and connctx over a scheduler-visible pipe (4-byte stream buffer with partial writes / 1-datagram queue): one context-controlled read or write whose context is cancelled by a separate thread at every possible point (before, during, after), a peer thread, then a probe operation with a live context; also two threads operating on the same wrapped connection concurrently, one context cancelled and one live (a cancellable context, or context.Background()); a read and a write on the same wrapped connection concurrently with both contexts cancelled by separate threads; one direction parked for good on a live context (silent peer / full pipe) while the other direction's operation, its context live or cancelled at any point, must still return with the wrapped connection's result; an operation in flight whose context is cancelled while the connection is closed (through the wrapper or by the peer), followed by a probe on the closed connection; every interleaving within the deviation bound (thorough: unbounded, the whole interleaving space is closed by the state cache)",
		Assumptions: []string{"the wrapped connection is the harness's fake with exact deadline semantics (a passed deadline fails the blocked and every later operation until reset)"}})
}
