package main

import (
	"fmt"
	"io"
	"sort"
	"strings"
	"time"

	"github.com/pion/transport/v3/dpipe"
	ttest "github.com/pion/transport/v3/test"
	"github.com/pion/transport/v3/zzvsched"
	"verifharness/explore"
)

// C18 — dpipe and Bridge preserve datagrams and apply exactly the scripted impairments.

var c18bridgeOps = []string{
	"W0:1", "W0:3", "W1:1", "W1:3", "W0:0",
	"DropNext(0,1)", "DropNext(1,2)",
	"ReorderNext(0,2)", "ReorderNext(1,2)", "ReorderNext(0,1)", "ReorderNext(1,1)", "ReorderNext(0,3)",
	"Drop(0,0,1)", "Drop(0,1,1)", "Drop(1,0,2)",
	"Reorder(0)", "Reorder(1)",
	"Filter(0,odd)", "Filter(0,nil)",
	"Tick", "Process",
}

// alphabet of the late-reader variant (direction 0 only)
var c18lateOps = []string{"W0:1", "W0:3", "Tick", "StartReader(0)", "Drop(0,0,1)", "Reorder(0)", "ReorderNext(0,2)", "DropNext(0,1)", "Process"}

type brModel struct {
	q       [2][]string
	dropN   [2]int
	reordN  [2]int
	stack   [2][]string
	filter  [2]bool
	deliver [2][]string // what endpoint 1 / 0 must have read, indexed by source direction
}

func cut(m string, n int) string {
	if len(m) > n {
		return m[:n]
	}
	return m
}

func c18bridge(steps, bound, slice int, late ...bool) *explore.Scenario {
	sc := &explore.Scenario{Name: fmt.Sprintf("bridge %d steps slice=%d", steps, slice), Bound: bound}
	// lateReader: nobody reads at endpoint 1 until the script says so; a Tick without a reader must leave the
	// message in the queue (where Drop / Reorder still see it)
	lateReader := len(late) > 0 && late[0]
	if lateReader {
		sc.Name += ", the reader of direction 0 starts late"
	}
	sc.Cfg.Horizon = 10 * time.Second
	sc.Make = func() (func(), func(*zzvsched.Exec) (string, *explore.Violation)) {
		var script []string
		var got [2][]string // got[d]: messages read at the far end of direction d (d=0: written on conn0, read on conn1)
		var m brModel
		var rearmed [2]bool
		finished := false
		var viol *explore.Violation
		body := func() {
			br := ttest.NewBridge()
			conns := [2]interface {
				Read([]byte) (int, error)
				Write([]byte) (int, error)
			}{br.GetConn0(), br.GetConn1()}
			readerOn := [2]bool{!lateReader, true}
			startReader := func(d int) {
				zzvsched.GoNamed(fmt.Sprintf("reader-of-dir%d", d), func() {
					for {
						// a sub-slice with spare capacity: nothing beyond len may be used
						full := make([]byte, slice+16)
						for i := range full {
							full[i] = 0xCD
						}
						buf := full[:slice]
						n, err := conns[1-d].Read(buf)
						if err != nil {
							return
						}
						if n > slice {
							got[d] = append(got[d], fmt.Sprintf("<n=%d beyond the %d-byte slice>", n, slice))
							continue
						}
						for _, x := range full[slice:] {
							if x != 0xCD {
								got[d] = append(got[d], "<wrote beyond the slice>")
							}
						}
						got[d] = append(got[d], string(buf[:n]))
					}
				})
			}
			for d := 0; d < 2; d++ {
				if readerOn[d] {
					startReader(d)
				}
			}
			zzvsched.WaitIdle()
			seq := 0
			syncTick := func(before [2]int) {
				for d := 0; d < 2; d++ {
					delivered := before[d] - br.Len(d)
					if lateReader {
						// independent of the implementation: one message per Tick, and only to a waiting reader
						want := 0
						if readerOn[d] && len(m.q[d]) > 0 {
							want = 1
						}
						if delivered != want && viol == nil {
							viol = &explore.Violation{Sig: "C18 bridge tick-count", Msg: fmt.Sprintf("script %v: Tick took %d message(s) out of the queue of direction %d; with%s reader waiting it must take %d", script, delivered, d, map[bool]string{true: " a", false: "out a"}[readerOn[d]], want)}
						}
						delivered = want
					}
					for k := 0; k < delivered && len(m.q[d]) > 0; k++ {
						m.deliver[d] = append(m.deliver[d], m.q[d][0])
						m.q[d] = m.q[d][1:]
					}
				}
			}
			for i := 0; i < steps; i++ {
				ops := c18bridgeOps
				if lateReader {
					ops = c18lateOps
				}
				op := ops[zzvsched.Choose(len(ops))]
				var d, a, b int
				switch {
				case op == "StartReader(0)":
					if readerOn[0] {
						script = append(script, "skip")
						continue
					}
					script = append(script, op)
					readerOn[0] = true
					startReader(0)
				case strings.HasPrefix(op, "W"):
					fmt.Sscanf(op, "W%d:%d", &d, &a)
					seq++
					msg := make([]byte, a)
					for k := range msg {
						msg[k] = byte('a' + seq)
					}
					if a > 0 {
						msg[0] = byte('0' + seq)
					}
					script = append(script, fmt.Sprintf("W%d(%q)", d, msg))
					keep := string(msg)
					if _, err := conns[d].Write(msg); err != nil {
						viol = &explore.Violation{Sig: "C18 bridge write-error", Msg: fmt.Sprintf("script %v: Write failed: %v", script, err)}
						return
					}
					for k := range msg {
						msg[k] = '!'
					}
					switch {
					case m.dropN[d] > 0:
						m.dropN[d]--
					case m.reordN[d] > 0:
						m.reordN[d]--
						m.stack[d] = append(m.stack[d], keep)
						if m.reordN[d] == 0 {
							for k := len(m.stack[d]) - 1; k >= 0; k-- {
								m.q[d] = append(m.q[d], m.stack[d][k])
							}
							m.stack[d] = nil
						}
					case m.filter[d] && len(keep) > 0 && keep[0]%2 == 1:
					default:
						m.q[d] = append(m.q[d], keep)
					}
				case strings.HasPrefix(op, "DropNext"):
					fmt.Sscanf(op, "DropNext(%d,%d)", &d, &a)
					// a drop window and a reorder window pending together: "the next n writes" are dropped as if they had
					// never been written, and the reorder window collects the next writes that survive
					// with a filter installed: "the next n writes" are the next n calls of Write, whatever the filter
					// would have said about them (a write is delivered iff it is outside the window AND passes the filter)
					script = append(script, op)
					br.DropNextNWrites(d, a)
					m.dropN[d] = a
				case strings.HasPrefix(op, "ReorderNext"):
					fmt.Sscanf(op, "ReorderNext(%d,%d)", &d, &a)
					if m.filter[d] {
						script = append(script, "skip")
						continue
					}
					if m.reordN[d] > 0 {
						// re-armed while a window is partly collected: nothing may be lost or duplicated;
						// the order within the merged window is not specified by the property
						rearmed[d] = true
					}
					script = append(script, op)
					br.ReorderNextNWrites(d, a)
					m.reordN[d] = a
				case strings.HasPrefix(op, "Drop("):
					fmt.Sscanf(op, "Drop(%d,%d,%d)", &d, &a, &b)
					if a > len(m.q[d]) {
						script = append(script, "skip")
						continue // an offset beyond the queue is outside the property
					}
					script = append(script, op)
					br.Drop(d, a, b)
					n := b
					if a+n > len(m.q[d]) {
						n = len(m.q[d]) - a
					}
					m.q[d] = append(append([]string(nil), m.q[d][:a]...), m.q[d][a+n:]...)
				case strings.HasPrefix(op, "Reorder("):
					fmt.Sscanf(op, "Reorder(%d)", &d)
					script = append(script, op)
					_ = br.Reorder(d)
					for x, y := 0, len(m.q[d])-1; x < y; x, y = x+1, y-1 {
						m.q[d][x], m.q[d][y] = m.q[d][y], m.q[d][x]
					}
				case op == "Filter(0,nil)":
					// a nil callback removes the filter
					if m.reordN[0] > 0 {
						script = append(script, "skip")
						continue
					}
					script = append(script, op)
					br.Filter(0, nil)
					m.filter[0] = false
				case strings.HasPrefix(op, "Filter"):
					if m.reordN[0] > 0 {
						script = append(script, "skip")
						continue
					}
					script = append(script, op)
					br.Filter(0, func(p []byte) bool { return !(len(p) > 0 && p[0]%2 == 1) })
					m.filter[0] = true
				case op == "Tick":
					script = append(script, op)
					before := [2]int{br.Len(0), br.Len(1)}
					br.Tick()
					syncTick(before)
				case op == "Process":
					if !readerOn[0] && len(m.q[0]) > 0 {
						script = append(script, "skip")
						continue // would tick for ever: nobody takes the messages of direction 0
					}
					script = append(script, op)
					br.Process()
					for d := 0; d < 2; d++ {
						m.deliver[d] = append(m.deliver[d], m.q[d]...)
						m.q[d] = nil
					}
				}
				zzvsched.WaitIdle() // readers consume and park again
			}
			if !readerOn[0] {
				readerOn[0] = true
				startReader(0)
				zzvsched.WaitIdle()
			}
			br.Process()
			for d := 0; d < 2; d++ {
				m.deliver[d] = append(m.deliver[d], m.q[d]...)
				m.q[d] = nil
			}
			zzvsched.WaitIdle()
			finished = true
		}
		check := func(ex *zzvsched.Exec) (string, *explore.Violation) {
			out := fmt.Sprintf("%v -> %q | %q", script, got[0], got[1])
			if len(ex.Panics) > 0 {
				return out, &explore.Violation{Sig: "C18 bridge panic", Msg: fmt.Sprintf("script %v: panic: %s\n%s", script, ex.Panics[0].Value, ex.Panics[0].Stack)}
			}
			if viol != nil {
				return out, viol
			}
			if ex.HorizonHit {
				return out + " HORIZON", nil
			}
			if !finished {
				return out, &explore.Violation{Sig: "C18 bridge blocked", Msg: fmt.Sprintf("script %v: the script thread blocked: %v", script, ex.Parked)}
			}
			for d := 0; d < 2; d++ {
				var want []string
				for _, w := range m.deliver[d] {
					want = append(want, cut(w, slice))
				}
				g := got[d]
				if rearmed[d] {
					want, g = append([]string(nil), want...), append([]string(nil), g...)
					sort.Strings(want)
					sort.Strings(g)
				}
				if fmt.Sprintf("%q", want) != fmt.Sprintf("%q", g) {
					kind := "wrong-delivery"
					if len(got[d]) > len(want) {
						kind = "duplicate-or-invented"
					} else if len(got[d]) < len(want) {
						kind = "lost"
					}
					return out, &explore.Violation{Sig: "C18 bridge " + kind, Msg: fmt.Sprintf("script %v: endpoint %d read %q, the script implies %q (reader slice %d bytes)", script, 1-d, got[d], want, slice)}
				}
			}
			return out, nil
		}
		return body, check
	}
	return sc
}

var c18pipeOps = []string{"Wab:1", "Wab:3", "Wba:2", "Wab:0", "Rb:8", "Rb:2", "Rb:0", "Ra:8", "CloseA", "CloseB", "Bulk:ab"}

func c18dpipe(steps int) *explore.Scenario {
	sc := &explore.Scenario{Name: fmt.Sprintf("dpipe %d steps", steps), Bound: 0}
	sc.Cfg.Horizon = 10 * time.Second
	sc.Make = func() (func(), func(*zzvsched.Exec) (string, *explore.Violation)) {
		var script []string
		var viol *explore.Violation
		finished := false
		fail := func(sig, format string, a ...any) {
			if viol == nil {
				viol = &explore.Violation{Sig: "C18 dpipe " + sig, Msg: fmt.Sprintf("script %v: ", script) + fmt.Sprintf(format, a...)}
			}
		}
		body := func() {
			a, b := dpipe.Pipe()
			var qab, qba []string // in flight a->b and b->a
			closedA, closedB := false, false
			seq := 0
			mk := func(n int) []byte {
				seq++
				p := make([]byte, n)
				for k := range p {
					p[k] = byte('a' + seq%20)
				}
				if n > 0 {
					p[0] = byte('0' + seq%70)
				}
				return p
			}
			write := func(name string, c interface{ Write([]byte) (int, error) }, q *[]string, closed bool, n int) {
				if len(*q) >= 1000 && !closed {
					script = append(script, "skip")
					return // would block: capacity reached
				}
				p := mk(n)
				keep := string(p)
				script = append(script, fmt.Sprintf("%s(%q)", name, keep))
				wn, err := c.Write(p)
				for k := range p {
					p[k] = '!'
				}
				if closed {
					if err != io.ErrClosedPipe {
						fail("write-after-close", "Write on a closed end returned (%d,%v)", wn, err)
					}
					return
				}
				if err != nil || wn != n {
					fail("write", "Write returned (%d,%v)", wn, err)
					return
				}
				*q = append(*q, keep)
			}
			read := func(name string, c interface{ Read([]byte) (int, error) }, q *[]string, closed bool, slice int) {
				if len(*q) == 0 && !closed {
					script = append(script, "skip")
					return
				}
				script = append(script, fmt.Sprintf("%s(%d)", name, slice))
				full := make([]byte, slice+16) // the reader's slice has spare capacity behind it
				buf := full[:slice]
				n, err := c.Read(buf)
				if n > slice {
					fail("read-count", "Read into a %d-byte slice returned n=%d", slice, n)
					return
				}
				if closed {
					if err == io.EOF {
						return
					}
					// a closed end may still hand out queued data or report EOF (select picks); both are unconstrained here
					if err == nil && len(*q) > 0 && string(buf[:n]) == cut((*q)[0], slice) {
						*q = (*q)[1:]
						return
					}
					fail("read-after-close", "Read on a closed end returned (%d,%v,%q)", n, err, buf[:n])
					return
				}
				want := cut((*q)[0], slice)
				*q = (*q)[1:]
				if err != nil || string(buf[:n]) != want {
					fail("wrong-message", "Read returned (%q,%v), want %q", buf[:n], err, want)
				}
			}
			for i := 0; i < steps; i++ {
				op := c18pipeOps[zzvsched.Choose(len(c18pipeOps))]
				var n int
				switch {
				case strings.HasPrefix(op, "Wab"):
					fmt.Sscanf(op, "Wab:%d", &n)
					write("Wab", a, &qab, closedA, n)
				case strings.HasPrefix(op, "Wba"):
					fmt.Sscanf(op, "Wba:%d", &n)
					write("Wba", b, &qba, closedB, n)
				case strings.HasPrefix(op, "Rb"):
					fmt.Sscanf(op, "Rb:%d", &n)
					read("Rb", b, &qab, closedB, n)
				case strings.HasPrefix(op, "Ra"):
					fmt.Sscanf(op, "Ra:%d", &n)
					read("Ra", a, &qba, closedA, n)
				case op == "CloseA":
					script = append(script, op)
					_ = a.Close()
					closedA = true
				case op == "CloseB":
					script = append(script, op)
					_ = b.Close()
					closedB = true
				case op == "Bulk:ab":
					if closedA {
						script = append(script, "skip")
						continue
					}
					script = append(script, "Bulk(fill a->b to 1000)")
					for len(qab) < 1000 {
						p := mk(2)
						keep := string(p)
						if _, err := a.Write(p); err != nil {
							fail("write", "bulk Write failed: %v", err)
							return
						}
						qab = append(qab, keep)
					}
				}
				if viol != nil {
					return
				}
			}
			// drain what the model says is in flight (peer close has no effect)
			if !closedB {
				for len(qab) > 0 {
					read("Rb", b, &qab, false, 8)
				}
			}
			if !closedA {
				for len(qba) > 0 {
					read("Ra", a, &qba, false, 8)
				}
			}
			finished = true
		}
		check := func(ex *zzvsched.Exec) (string, *explore.Violation) {
			out := fmt.Sprint(script)
			if len(out) > 200 {
				out = out[:200]
			}
			if len(ex.Panics) > 0 {
				return out, &explore.Violation{Sig: "C18 dpipe panic", Msg: fmt.Sprintf("script %v: panic: %s", script, ex.Panics[0].Value)}
			}
			if viol != nil {
				return out, viol
			}
			if !finished {
				return out, &explore.Violation{Sig: "C18 dpipe blocked", Msg: fmt.Sprintf("script %v: an operation the model says can complete blocked: %v", script, ex.Parked)}
			}
			return out, nil
		}
		return body, check
	}
	return sc
}

// c18dpipeLarge: messages around and above 64 KiB (the largest UDP datagram is no limit for a dpipe: "any
// message sizes") cross in both directions unmodified and whole.
func c18dpipeLarge() *explore.Scenario {
	sc := &explore.Scenario{Name: "dpipe large messages (65535, 65536, 70000, 1 MiB) both ways", Bound: 0}
	sc.Cfg.Horizon = 10 * time.Second
	sc.Make = func() (func(), func(*zzvsched.Exec) (string, *explore.Violation)) {
		var viol *explore.Violation
		finished := false
		done := 0
		body := func() {
			a, b := dpipe.Pipe()
			ends := []interface {
				Read([]byte) (int, error)
				Write([]byte) (int, error)
			}{a, b}
			for k, size := range []int{65535, 65536, 70000, 1 << 20, 65537} {
				w, r := ends[k%2], ends[1-k%2]
				p := make([]byte, size)
				for i := range p {
					p[i] = byte(i*7 + k)
				}
				keep := append([]byte(nil), p...)
				n, err := w.Write(p)
				for i := range p {
					p[i] = '!'
				}
				if err != nil || n != size {
					viol = &explore.Violation{Sig: "C18 dpipe write", Msg: fmt.Sprintf("Write of %d bytes returned (%d, %v)", size, n, err)}
					return
				}
				buf := make([]byte, size+8)
				n, err = r.Read(buf)
				if err != nil || n != size || string(buf[:n]) != string(keep) {
					first := 0
					for first < n && first < size && buf[first] == keep[first] {
						first++
					}
					viol = &explore.Violation{Sig: "C18 dpipe wrong-message", Msg: fmt.Sprintf("a %d-byte message was read as (n=%d, err=%v), first differing byte at %d", size, n, err, first)}
					return
				}
				done++
			}
			finished = true
		}
		check := func(ex *zzvsched.Exec) (string, *explore.Violation) {
			out := fmt.Sprintf("messages=%d", done)
			if len(ex.Panics) > 0 {
				return out, &explore.Violation{Sig: "C18 dpipe panic", Msg: "large messages: panic: " + ex.Panics[0].Value}
			}
			if viol != nil {
				return out, viol
			}
			if !finished {
				return out, &explore.Violation{Sig: "C18 dpipe blocked", Msg: fmt.Sprintf("large messages: blocked after %d: %v", done, ex.Parked)}
			}
			return out, nil
		}
		return body, check
	}
	return sc
}

// c18dpipeBlocked: the 1000-message buffer towards b is full, one more Write on a blocks, and then a is
// closed (or b reads one message).  Closing a must release the blocked Write with an error and leave every
// message that had been accepted readable at b, in order; a read at b must let the blocked Write through.
func c18dpipeBlocked(closeA bool, bound int) *explore.Scenario {
	name := "dpipe full, one Write blocked, then the peer reads one"
	if closeA {
		name = "dpipe full, one Write blocked, then the writing end is closed"
	}
	sc := &explore.Scenario{Name: name, Bound: bound}
	sc.Cfg.Horizon = 10 * time.Second
	sc.Make = func() (func(), func(*zzvsched.Exec) (string, *explore.Violation)) {
		var viol *explore.Violation
		fail := func(sig, format string, a ...any) {
			if viol == nil {
				viol = &explore.Violation{Sig: "C18 dpipe " + sig, Msg: name + ": " + fmt.Sprintf(format, a...)}
			}
		}
		finished, blockedDone := false, false
		var blockedErr error
		body := func() {
			a, b := dpipe.Pipe()
			var want []string
			for i := 0; i < 1000; i++ {
				m := fmt.Sprintf("m%04d", i)
				if _, err := a.Write([]byte(m)); err != nil {
					fail("write", "Write #%d failed: %v", i, err)
					return
				}
				want = append(want, m)
			}
			zzvsched.GoNamed("blocked-writer", func() {
				_, blockedErr = a.Write([]byte("m1000"))
				blockedDone = true
			})
			zzvsched.WaitIdle()
			if blockedDone {
				fail("capacity", "the 1001st Write did not block on the full buffer (err=%v)", blockedErr)
				return
			}
			if closeA {
				_ = a.Close()
			} else {
				buf := make([]byte, 16)
				n, err := b.Read(buf)
				if err != nil || string(buf[:n]) != want[0] {
					fail("wrong-read", "first Read returned %q, %v; want %q", buf[:n], err, want[0])
					return
				}
				want = append(want[1:], "m1000")
			}
			zzvsched.WaitIdle()
			if !blockedDone {
				fail("blocked-write-not-released", "the blocked Write is still blocked: %v", "see parked threads")
				return
			}
			if closeA && blockedErr == nil {
				want = append(want, "m1000") // it got through before the Close took effect: then it must arrive
			}
			if !closeA && blockedErr != nil {
				fail("write", "the blocked Write failed although room was made: %v", blockedErr)
				return
			}
			for i, w := range want {
				buf := make([]byte, 16)
				n, err := b.Read(buf) // a missing message leaves this Read blocked: reported as "the script blocked"
				if err != nil || string(buf[:n]) != w {
					fail("lost-or-reordered", "message %d read at the other end as %q (err %v), want %q: closing / unblocking one end must not affect what was written", i, buf[:n], err, w)
					return
				}
			}
			finished = true
		}
		check := func(ex *zzvsched.Exec) (string, *explore.Violation) {
			out := fmt.Sprintf("blockedErr=%v", blockedErr)
			if len(ex.Panics) > 0 {
				return out, &explore.Violation{Sig: "C18 dpipe panic", Msg: name + ": panic: " + ex.Panics[0].Value}
			}
			if viol != nil {
				return out, viol
			}
			if ex.HorizonHit {
				return out + " HORIZON", nil
			}
			if !finished {
				return out, &explore.Violation{Sig: "C18 dpipe blocked", Msg: fmt.Sprintf("%s: the script blocked: %v", name, ex.Parked)}
			}
			return out, nil
		}
		return body, check
	}
	return sc
}

func init() {
	register(&Check{ID: "C18", YieldOnRelease: true,
		Scenarios: func(tier string) []*explore.Scenario {
			if tier == "quick" {
				return []*explore.Scenario{c18bridge(4, 0, 8), c18bridge(3, 0, 2), c18bridge(3, 0, 0), c18bridge(2, 1, 8), c18bridge(5, 0, 8, true), c18dpipe(4), c18dpipeBlocked(true, 1), c18dpipeBlocked(false, 1), c18dpipeLarge()}
			}
			return []*explore.Scenario{c18bridge(5, 0, 8), c18bridge(4, 0, 2), c18bridge(3, 0, 0), c18bridge(3, 1, 8), c18bridge(6, 0, 8, true), c18dpipe(6), c18dpipeBlocked(true, 2), c18dpipeBlocked(false, 2), c18dpipeLarge()}
		},
		Rule: "Bridge: every script of the stated length over {writes of 0/1/3-byte messages in both directions, DropNextNWrites, ReorderNextNWrites (1,2,3; also repeated), Drop, Reorder, Filter (set and cleared), Tick, Process} with parked reader threads (one variant: the reader of one direction starts late, and a Tick without a waiting reader must leave the queue untouched) (slices of 0, 2, 8 bytes), compared per endpoint with a script interpreter; dpipe: every script over {writes both ways incl. empty, reads with short/long/zero-length slices (a zero-length read still consumes one message), Close of either end, filling the 1000-message buffer}; messages of 65535, 65536, 65537, 70000 and 2^20 bytes both ways; plus: buffer full, one more Write blocked in its own thread, then the writing end is closed / the peer reads one",
		Assumptions: []string{"precedence between a reorder window and a filter, and Drop with an offset beyond the queue, are not specified by the property: such steps are skipped; a drop window pending together with a reorder window: the dropped writes count as never written and the reorder window collects the next surviving writes; a drop window counts calls of Write (a write is delivered iff it is outside the window and passes the filter); ReorderNextNWrites re-armed while a window is partly collected: messages are compared as a multiset for that direction (nothing lost, duplicated or invented; order within the merged window unspecified)",
			"a one-message reordering delivers that message (reversal of one element)"}})
}
