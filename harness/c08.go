package main

import (
	"errors"
	"fmt"
	"io"
	"net"
	"sort"
	"strings"
	"time"

	"github.com/pion/transport/v3/packetio"
	"github.com/pion/transport/v3/zzvsched"
	"verifharness/explore"
)

// C08 — packet buffer reads block only while empty and are always woken.

type c08cfg struct {
	readers, writers, perWriter int
	closer                      bool
	deadline                    string // "", "past", "future", "zero-after-past"
	bound                       int
	script                      []int // writer0 runs this instead: n>0 write n bytes, 0 = read one packet itself
	shortReader                 bool  // reader 0 passes a slice shorter than the packets: its read is cut (io.ErrShortBuffer) and consumes the packet
}

func (c c08cfg) name() string {
	s := fmt.Sprintf("buf R%d W%dx%d", c.readers, c.writers, c.perWriter)
	if c.closer {
		s += " +Close"
	}
	if c.shortReader {
		s += " +short-slice reader"
	}
	if c.deadline != "" {
		s += " +SRD(" + c.deadline + ")"
	}
	if c.script != nil {
		s += fmt.Sprintf(" script%v", c.script)
	}
	return s
}

type readRes struct {
	done bool
	n    int
	err  error
	data string
	at   time.Duration
}

func errClass(err error) string {
	switch {
	case err == nil:
		return "ok"
	case errors.Is(err, io.EOF):
		return "eof"
	case errors.Is(err, io.ErrShortBuffer):
		return "short"
	case errors.Is(err, io.ErrClosedPipe):
		return "closedpipe"
	case errors.Is(err, packetio.ErrFull):
		return "full"
	}
	var ne net.Error
	if errors.As(err, &ne) && ne.Timeout() {
		return "timeout"
	}
	return "err:" + err.Error()
}

// tagOf identifies a packet by its leading "wNpM" tag (large packets are zero padded).
func tagOf(p []byte) string {
	for i, c := range p {
		if c == 0 {
			return string(p[:i])
		}
	}
	return string(p)
}

func c08scenario(c c08cfg) *explore.Scenario {
	sc := &explore.Scenario{Name: c.name(), Bound: c.bound}
	sc.Cfg.Horizon = time.Second
	sc.Make = func() (func(), func(*zzvsched.Exec) (string, *explore.Violation)) {
		var b *packetio.Buffer
		res := make([]readRes, c.readers)
		var written []string
		var extra []string // packets the scripted writer read itself
		finalCount := -1
		var tail []readRes
		closed := false
		var firstDL time.Duration // "future-zero-future": the first, short deadline (a reader it released may return at any later time)
		deadlineChanged := false
		var dlSet time.Duration // virtual instant of the deadline in force (0 = none)
		body := func() {
			b = packetio.NewBuffer()
			for i := 0; i < c.readers; i++ {
				i := i
				zzvsched.GoNamed(fmt.Sprintf("reader%d", i), func() {
					buf := make([]byte, 4096)
					if c.shortReader && i == 0 {
						buf = buf[:4] // exactly the tag; the packets are longer
					}
					n, err := b.Read(buf)
					res[i] = readRes{done: true, n: n, err: err, data: strings.TrimSuffix(tagOf(buf[:n]), "-pad"), at: zzvsched.Elapsed()}
				})
			}
			for w := 0; w < c.writers; w++ {
				w := w
				zzvsched.GoNamed(fmt.Sprintf("writer%d", w), func() {
					if w == 0 && c.script != nil {
						for k, n := range c.script {
							if n == 0 {
								buf := make([]byte, 4096)
								if m, err := b.Read(buf); err == nil {
									extra = append(extra, tagOf(buf[:m]))
								}
								continue
							}
							p := make([]byte, n)
							copy(p, fmt.Sprintf("w%dp%d", w, k))
							if _, err := b.Write(p); err == nil {
								written = append(written, tagOf(p))
							}
						}
						return
					}
					for k := 0; k < c.perWriter; k++ {
						p := []byte(fmt.Sprintf("w%dp%d", w, k))
						tag := string(p)
						if c.shortReader {
							p = append(p, "-pad"...)
						}
						if _, err := b.Write(p); err == nil {
							written = append(written, tag)
						}
						for j := range p {
							p[j] = 'X' // the writer may reuse its slice at once
						}
					}
				})
			}
			if c.closer {
				zzvsched.GoNamed("closer", func() {
					_ = b.Close()
					closed = true
				})
			}
			switch c.deadline {
			case "past":
				zzvsched.GoNamed("srd", func() {
					dlSet = zzvsched.Elapsed()
					_ = b.SetReadDeadline(zzvsched.Base.Add(1))
				})
			case "future":
				zzvsched.GoNamed("srd", func() {
					dl := zzvsched.Now().Add(10 * time.Millisecond)
					dlSet = dl.Sub(zzvsched.Base)
					_ = b.SetReadDeadline(dl)
				})
			case "past-then-future", "future-zero-future":
				// the deadline is changed several times while the reader waits; the last one counts
				zzvsched.GoNamed("srd", func() {
					if c.deadline == "past-then-future" {
						_ = b.SetReadDeadline(zzvsched.Base.Add(1))
						deadlineChanged = true
					} else {
						// short enough to fire: its callback may still be outstanding during the next calls
						dl1 := zzvsched.Now().Add(5 * time.Millisecond)
						firstDL = dl1.Sub(zzvsched.Base)
						_ = b.SetReadDeadline(dl1)
						_ = b.SetReadDeadline(time.Time{})
					}
					dl := zzvsched.Now().Add(10 * time.Millisecond)
					dlSet = dl.Sub(zzvsched.Base)
					_ = b.SetReadDeadline(dl)
				})
			}
			zzvsched.SleepIdle(50 * time.Millisecond)
			finalCount = b.Count()
			// afterwards: with Close the remaining packets are still readable, then EOF
			if c.closer && closed {
				for i := 0; i < finalCount+1; i++ {
					buf := make([]byte, 4096)
					n, err := b.Read(buf)
					tail = append(tail, readRes{done: true, n: n, err: err, data: strings.TrimSuffix(tagOf(buf[:n]), "-pad")})
				}
			}
		}
		check := func(ex *zzvsched.Exec) (string, *explore.Violation) {
			var got []string
			parked := 0
			timeouts := 0
			var outcome []string
			for i, r := range res {
				if !r.done {
					parked++
					outcome = append(outcome, fmt.Sprintf("r%d:parked", i))
					continue
				}
				cl := errClass(r.err)
				outcome = append(outcome, fmt.Sprintf("r%d:%s%s", i, cl, r.data))
				switch cl {
				case "ok":
					got = append(got, r.data)
				case "short":
					if !(c.shortReader && i == 0) {
						return "", &explore.Violation{Msg: fmt.Sprintf("reader %d: short-buffer error with a 4096-byte slice", i), Sig: "C08 unexpected-error"}
					}
					got = append(got, r.data) // the cut read consumed that packet
				case "timeout":
					timeouts++
					if dlSet == 0 && c.deadline == "" {
						return "", &explore.Violation{Msg: fmt.Sprintf("reader %d timed out although no deadline was ever set", i), Sig: "C08 spurious-timeout"}
					}
					if c.deadline == "future-zero-future" && firstDL != 0 && r.at >= firstDL {
						break // released by the first (5 ms) deadline before it was replaced
					}
					if (c.deadline == "future" || c.deadline == "future-zero-future" || (c.deadline == "past-then-future" && !deadlineChanged)) && r.at < dlSet {
						return "", &explore.Violation{Msg: fmt.Sprintf("reader %d timed out at %v before the deadline %v", i, r.at, dlSet), Sig: "C08 early-timeout"}
					}
				case "eof":
					if !c.closer {
						return "", &explore.Violation{Msg: "EOF without Close", Sig: "C08 eof-without-close"}
					}
				default:
					return "", &explore.Violation{Msg: fmt.Sprintf("reader %d: unexpected error %v", i, r.err), Sig: "C08 unexpected-error"}
				}
			}
			for _, r := range tail {
				if errClass(r.err) == "ok" {
					got = append(got, r.data)
				}
			}
			got = append(got, extra...)
			sort.Strings(outcome)
			out := strings.Join(outcome, " ") + fmt.Sprintf(" count=%d", finalCount)
			if len(ex.Panics) > 0 {
				return out, &explore.Violation{Msg: "panic: " + ex.Panics[0].Value + "\n" + ex.Panics[0].Stack, Sig: "C08 panic"}
			}
			if ex.HorizonHit {
				return out + " HORIZON", nil
			}
			if finalCount < 0 {
				return out, &explore.Violation{Msg: "harness main thread never became idle: " + fmt.Sprint(ex.Parked), Sig: "C08 main-stuck"}
			}
			// exactly-once
			seen := map[string]int{}
			for _, g := range got {
				seen[g]++
				if seen[g] > 1 {
					return out, &explore.Violation{Msg: "packet " + g + " returned twice", Sig: "C08 duplicate"}
				}
			}
			wr := map[string]bool{}
			for _, w := range written {
				wr[w] = true
			}
			for _, g := range got {
				if !wr[g] {
					return out, &explore.Violation{Msg: "read returned bytes that were never written: " + g, Sig: "C08 invented"}
				}
			}
			if len(got)+func() int {
				if c.closer && closed {
					return 0
				}
				return finalCount
			}() != len(written) {
				return out, &explore.Violation{Msg: fmt.Sprintf("written=%v read=%v count=%d: a packet was lost", written, got, finalCount), Sig: "C08 lost"}
			}
			// the blocking rule: at quiescence nobody is parked in Read while a packet is buffered
			deadlinePassed := c.deadline != "" && dlSet != 0
			if parked > 0 && finalCount > 0 {
				return out, &explore.Violation{
					Msg: fmt.Sprintf("%d reader(s) still blocked in Read at quiescence while %d packet(s) are buffered (written=%v read=%v)", parked, finalCount, written, got),
					Sig: "C08 reader-parked-with-data"}
			}
			// EOF only after the buffer has been drained: packets still buffered at the end were written before
			// Close (later writes fail) and never taken, so they were buffered when a reader was told EOF
			if c.closer && closed && finalCount > 0 {
				for i, r := range res {
					if r.done && errClass(r.err) == "eof" {
						return out, &explore.Violation{Msg: fmt.Sprintf("reader %d was told end-of-file although %d packet(s) written before Close were (and still are) buffered (written=%v read=%v)", i, finalCount, written, got), Sig: "C08 eof-before-drained"}
					}
				}
			}
			if parked > 0 && c.closer && closed {
				return out, &explore.Violation{Msg: "reader still blocked after Close", Sig: "C08 reader-parked-after-close"}
			}
			if parked > 0 && deadlinePassed {
				return out, &explore.Violation{Msg: "reader still blocked although its read deadline has passed", Sig: "C08 reader-parked-after-deadline"}
			}
			if c.closer && closed {
				if len(tail) == 0 || errClass(tail[len(tail)-1].err) != "eof" {
					return out, &explore.Violation{Msg: fmt.Sprintf("after Close and draining, Read did not report EOF: %+v", tail), Sig: "C08 no-eof-after-close"}
				}
				for _, r := range tail[:len(tail)-1] {
					if errClass(r.err) != "ok" {
						return out, &explore.Violation{Msg: fmt.Sprintf("after Close a buffered packet was not readable: %v", r.err), Sig: "C08 close-loses-data"}
					}
				}
			}
			return out, nil
		}
		return body, check
	}
	return sc
}

var c08seqOps = []string{"W", "R", "Close", "SRD(zero)", "SRD(past)", "SRD(+10ms)", "idle(20ms)"}

// c08sequential: every history of the stated length over writes, reads, Close and read-deadline
// changes in ONE thread, against the blocking rule: a passed deadline fails the read with a timeout
// until the deadline is changed (also after Close); otherwise a buffered packet is returned; otherwise
// a closed buffer reports EOF.
func c08sequential(steps int) *explore.Scenario {
	sc := &explore.Scenario{Name: fmt.Sprintf("buffer sequential %d steps (Close x deadlines)", steps), Bound: 0}
	sc.Cfg.Strict = true
	sc.Cfg.Horizon = time.Second
	sc.Make = func() (func(), func(*zzvsched.Exec) (string, *explore.Violation)) {
		var script []string
		var viol *explore.Violation
		finished, inRead := false, false
		body := func() {
			b := packetio.NewBuffer()
			queued, closed := 0, false
			var dl time.Duration // deadline in force (virtual instant, may be negative), valid if hasDL
			hasDL := false
			seq := 0
			for i := 0; i < steps+1; i++ {
				op := "R" // every history ends with a read
				if i < steps {
					op = c08seqOps[zzvsched.Choose(len(c08seqOps))]
				}
				now := zzvsched.Elapsed()
				passed := hasDL && dl < now
				if op == "R" && !passed && queued == 0 && !closed && !hasDL {
					op = "skip" // would block for ever, legitimately
				}
				script = append(script, op)
				switch op {
				case "W":
					seq++
					if _, err := b.Write([]byte(fmt.Sprintf("p%d", seq))); err == nil {
						queued++
					} else if !closed {
						viol = &explore.Violation{Sig: "C08 seq-write", Msg: fmt.Sprintf("history %v: Write failed: %v", script, err)}
						return
					}
				case "Close":
					_ = b.Close()
					closed = true
				case "SRD(zero)":
					_ = b.SetReadDeadline(time.Time{})
					hasDL = false
				case "SRD(past)":
					_ = b.SetReadDeadline(zzvsched.Base.Add(now - time.Millisecond))
					dl, hasDL = now-time.Millisecond, true
				case "SRD(+10ms)":
					t := zzvsched.Now().Add(10 * time.Millisecond)
					_ = b.SetReadDeadline(t)
					dl, hasDL = t.Sub(zzvsched.Base), true
				case "idle(20ms)":
					zzvsched.SleepIdle(20 * time.Millisecond)
				case "R":
					buf := make([]byte, 32)
					inRead = true
					n, err := b.Read(buf)
					inRead = false
					end := zzvsched.Elapsed()
					cl := errClass(err)
					want := ""
					switch {
					case passed:
						want = "timeout"
					case queued > 0:
						want = "ok"
					case closed:
						want = "eof"
					default:
						want = "timeout" // a future deadline, nothing to read: released when it passes
					}
					if cl != want || (cl == "timeout" && end < dl) {
						viol = &explore.Violation{Sig: "C08 seq-read-result", Msg: fmt.Sprintf("history %v: Read returned (%d, %v) at %v; deadline %v, %d packet(s) buffered, closed=%v: want %s", script, n, err, end, dl, queued, closed, want)}
						return
					}
					if cl == "ok" {
						queued--
					}
				}
			}
			finished = true
		}
		check := func(ex *zzvsched.Exec) (string, *explore.Violation) {
			out := strings.Join(script, ",")
			if len(ex.Panics) > 0 {
				return out, &explore.Violation{Sig: "C08 panic", Msg: fmt.Sprintf("history %v: panic: %s", script, ex.Panics[0].Value)}
			}
			if viol != nil {
				return out, viol
			}
			if !finished && inRead {
				return out, &explore.Violation{Sig: "C08 seq-read-blocked", Msg: fmt.Sprintf("history %v: Read never returned although a deadline is set or the buffer is closed or holds a packet", script)}
			}
			return out, nil
		}
		return body, check
	}
	return sc
}

func init() {
	register(&Check{
		ID: "C08", YieldOnRelease: true,
		Scenarios: func(tier string) []*explore.Scenario {
			var cfgs []c08cfg
			if tier == "quick" {
				cfgs = []c08cfg{
					{readers: 2, writers: 2, perWriter: 1, bound: 2},
					{readers: 2, writers: 1, perWriter: 2, bound: 2},
					{readers: 2, writers: 1, perWriter: 1, closer: true, bound: 2},
					{readers: 1, writers: 1, perWriter: 1, deadline: "past", bound: 2},
					{readers: 2, writers: 0, perWriter: 0, deadline: "future", bound: 2},
					// the ring wraps while two readers wait: head/tail in every relative order
					{readers: 2, writers: 1, script: []int{1500, 10, 0, 1000}, bound: 1},
					{readers: 2, writers: 1, script: []int{2000, 30, 0, 40, 0, 1990}, bound: 1},
					{readers: 1, writers: 0, deadline: "past-then-future", bound: 2},
					{readers: 1, writers: 0, deadline: "future-zero-future", bound: 2},
					{readers: 2, writers: 1, perWriter: 2, shortReader: true, bound: 2},
					{readers: 2, writers: 2, perWriter: 1, shortReader: true, closer: true, bound: 2},
				}
			} else {
				cfgs = []c08cfg{
					{readers: 2, writers: 2, perWriter: 1, bound: 3},
					{readers: 2, writers: 1, perWriter: 2, bound: 3},
					{readers: 3, writers: 2, perWriter: 1, bound: 2},
					{readers: 2, writers: 2, perWriter: 1, closer: true, bound: 2},
					{readers: 3, writers: 1, perWriter: 2, closer: true, bound: 2},
					{readers: 2, writers: 1, perWriter: 1, deadline: "past", bound: 3},
					{readers: 2, writers: 1, perWriter: 1, deadline: "future", bound: 3},
					{readers: 2, writers: 1, script: []int{1500, 10, 0, 1000}, bound: 2},
					{readers: 2, writers: 1, script: []int{2000, 30, 0, 40, 0, 1990}, bound: 2},
					{readers: 3, writers: 1, script: []int{1500, 10, 500, 0, 0, 1000}, bound: 2},
					{readers: 2, writers: 1, perWriter: 1, deadline: "past-then-future", bound: 3},
					{readers: 2, writers: 0, deadline: "future-zero-future", bound: 3},
					{readers: 2, writers: 1, perWriter: 2, shortReader: true, bound: 3},
					{readers: 3, writers: 2, perWriter: 1, shortReader: true, bound: 2},
					{readers: 2, writers: 2, perWriter: 1, shortReader: true, closer: true, bound: 2},
				}
			}
			var out []*explore.Scenario
			for _, c := range cfgs {
				out = append(out, c08scenario(c))
			}
			if tier == "quick" {
				out = append(out, c08sequential(4))
			} else {
				out = append(out, c08sequential(6))
			}
			return out
		},
		Rule: "every interleaving (at each lock, channel, select, timer operation) of the reader/writer/closer/deadline threads within the deviation bound; " +
			"an outcome is the multiset of per-reader results plus the final Count; non-trivial = at least two threads touched a common object",
		Assumptions: []string{"sequential consistency at the granularity of synchronisation operations (data-race freedom is C19)",
			"a goroutine parked at a channel operation may be served in any order relative to other waiters"},
	})
}
