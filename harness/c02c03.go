package main

import (
	"bytes"
	"encoding/binary"
	"fmt"
	"hash/fnv"
	"net"
	"sort"
	"strconv"
	"strings"
	"time"

	"github.com/pion/transport/v3/vnet"
	"github.com/pion/transport/v3/zzvsched"
)

// C02 / C03 — NAT mapping (C02) and filtering (C03) behaviour.  Explicit-state
// BFS over outbound / inbound / time-advance histories of the real translator
// (in-package driver, virtual clock) against an RFC 4787 table model.

type natCfg struct {
	mapping, filtering vnet.EndpointDependencyType
	lifetime           time.Duration // 0 = default 30 s
	oneToOne           int           // >0: 1:1 mode with that many IP pairs
	viaRouter          bool          // inbound datagrams enter through Router.onInboundChunk of a real LAN router (not the translator alone)
	twoIPs             bool          // NAPT router that holds a second external address (only the first is used for mappings)
	portPres           bool          // NAPT with NATType.PortPreservation set (a 1:1-mode notion; NAPT assigns "some fresh port" regardless)
	pairedLocal        bool          // NAPT router whose external addresses were written as "external/local" pairs (the pairing means nothing outside 1:1 mode)
}

func depName(d vnet.EndpointDependencyType) string {
	return [...]string{"EI", "AD", "APD"}[d]
}

func (c natCfg) String() string {
	if c.oneToOne > 0 {
		return fmt.Sprintf("1:1x%d", c.oneToOne)
	}
	x := ""
	if c.twoIPs {
		x = ",2 external IPs"
	}
	if c.viaRouter {
		x += ",behind a LAN router"
	}
	if c.pairedLocal {
		x += ",external IPs paired with local IPs"
	}
	if c.portPres {
		x += ",PortPreservation set"
	}
	return fmt.Sprintf("map=%s,filt=%s,life=%v%s", depName(c.mapping), depName(c.filtering), c.life(), x)
}

func (c natCfg) life() time.Duration {
	if c.lifetime == 0 {
		return 30 * time.Second
	}
	return c.lifetime
}

const natRouterIP = "1.2.3.4"

var natEndpoints = map[string]string{
	"A1": "10.0.0.1:5001", "A2": "10.0.0.1:5002", "B1": "10.0.0.2:5001",
	"X1": "5.5.5.5:80", "X2": "5.5.5.5:81", "Y1": "6.6.6.6:80", "Z9": "7.7.7.7:99",
	// endpoints whose concatenated texts collide: "10.0.0.1:50"+"15.5.5.5" == "10.0.0.1:501"+"5.5.5.5"
	"C1": "10.0.0.1:50", "C2": "10.0.0.1:501", "Z1": "15.5.5.5:80",
	// never contacted, but textually an extension of a contacted remote (keys are compared as strings)
	"XP": "5.5.5.5:800", "XQ": "5.5.5.50:80",
	// 1:1 mode
	"L0a": "10.0.0.1:5001", "L0b": "10.0.0.1:5002", "L1a": "10.0.0.2:5001", "L2a": "10.0.0.3:5001", "Ua": "10.0.0.99:5001",
	"M0a": "1.2.3.10:5001", "M0c": "1.2.3.10:7777", "M1a": "1.2.3.11:5001", "M2a": "1.2.3.12:5001", "MUa": "1.2.3.99:5001",
}

func natEP(name string) string {
	if ep, ok := natEndpoints[name]; ok {
		return ep
	}
	if strings.HasPrefix(name, "P") { // bulk internal endpoints
		n, _ := strconv.Atoi(name[1:])
		return fmt.Sprintf("10.0.%d.%d:%d", 1+n/60000, 3, 1000+n%60000)
	}
	panic("unknown endpoint " + name)
}

type natMapping struct {
	internal, bound, ext string
	filters              map[string]bool
	last                 time.Duration
}

type natSys struct {
	historyKey bool          // identify states by their history instead of a dump (deep starts)
	hist       []string      // every operation so far (only kept with historyKey)
	router     *vnet.Router  // set with cfg.viaRouter: inbound datagrams go through Router.onInboundChunk
	nops       int           // operations so far (selects the IP representation of the next chunk)
	lastOpAt   time.Duration // when the previous datagram was handled: the next chunk carries that instant as its queue timestamp
	mode       string
	cfg        natCfg
	z          *vnet.ZZNAT
	byKey      map[string]*natMapping // internal|bound -> newest mapping with that key
	byExt      map[string]*natMapping // external endpoint -> newest mapping that held it
	extSet     map[string]bool
	exts       []string
	dead       bool
	seq        int
	alpha      []string
	lastOp     *string
}

func newNatSys(mode string, cfg natCfg, alpha []string, lastOp *string) *natSys {
	t := vnet.NATType{MappingBehavior: cfg.mapping, FilteringBehavior: cfg.filtering, MappingLifeTime: cfg.lifetime}
	t.PortPreservation = cfg.portPres
	var mapped, local []string
	if cfg.oneToOne > 0 {
		t.Mode = vnet.NATModeNAT1To1
		for j := 0; j < cfg.oneToOne; j++ {
			mapped = append(mapped, fmt.Sprintf("1.2.3.%d", 10+j))
			local = append(local, fmt.Sprintf("10.0.0.%d", 1+j))
		}
	} else {
		mapped = []string{natRouterIP}
		if cfg.twoIPs {
			mapped = append(mapped, "1.2.3.5")
		}
		if cfg.pairedLocal {
			for j := range mapped {
				local = append(local, fmt.Sprintf("10.0.0.%d", 1+j))
			}
		}
	}
	var z *vnet.ZZNAT
	var rt *vnet.Router
	var err error
	if cfg.viaRouter {
		rt, z, err = vnet.ZZNewNATRouter(t, natRouterIP)
	} else {
		z, err = vnet.ZZNewNAT(t, mapped, local)
	}
	if err != nil {
		panic(err)
	}
	return &natSys{mode: mode, cfg: cfg, z: z, router: rt, alpha: alpha, lastOp: lastOp,
		byKey: map[string]*natMapping{}, byExt: map[string]*natMapping{}, extSet: map[string]bool{}}
}

func depKey(d vnet.EndpointDependencyType, ep string) string {
	switch d {
	case vnet.EndpointIndependent:
		return ""
	case vnet.EndpointAddrDependent:
		h, _, _ := net.SplitHostPort(ep)
		return h
	}
	return ep
}

func (s *natSys) Ops() []string {
	if s.dead {
		return nil
	}
	var out []string
	for _, op := range s.alpha {
		f := strings.Fields(op)
		if f[0] == "I" && (f[2] == "EL" || f[2] == "E0x") {
			if len(s.exts) == 0 || (f[2] == "E0x" && !s.cfg.twoIPs) {
				continue
			}
		} else if f[0] == "I" && strings.HasPrefix(f[2], "E") && f[2] != "EN" {
			k, _ := strconv.Atoi(f[2][1:])
			if k >= len(s.exts) {
				continue
			}
		}
		out = append(out, op)
	}
	return out
}

// alive: 1 live, 0 expired, -1 too close to the expiry instant to say
func (s *natSys) alive(m *natMapping, now time.Duration) int {
	idle := now - m.last
	switch {
	case idle < s.cfg.life()-time.Microsecond:
		return 1
	case idle > s.cfg.life()+time.Microsecond:
		return 0
	}
	return -1
}

func (s *natSys) liveByExt(ext string, now time.Duration) (*natMapping, int) {
	if m := s.byExt[ext]; m != nil {
		return m, s.alive(m, now)
	}
	return nil, 0
}

func (s *natSys) Apply(op string) (obs, sig, msg string) {
	defer panicAsViolation(op, &sig, &msg)
	if s.historyKey {
		s.hist = append(s.hist, op)
	}
	if s.lastOp != nil {
		*s.lastOp = op
	}
	f := strings.Fields(op)
	now := zzvsched.Elapsed()
	c02 := s.mode == "C02"
	s.seq++
	payload := []byte(fmt.Sprintf("payload-%d", s.seq))
	keep := append([]byte(nil), payload...)
	switch f[0] {
	case "T":
		d := s.cfg.life()/2 - time.Millisecond
		switch f[1] {
		case "full":
			d = s.cfg.life() + time.Millisecond
		case "most":
			d = s.cfg.life() - 2*time.Millisecond
		}
		zzvsched.Sleep(d)
		return "t", "", ""
	case "O":
		src, dst := natEP(f[1]), natEP(f[2])
		// equal addresses arrive in both slice representations: alternately 4-byte and 16-byte
		s.nops++
		vnet.ZZIPForm = 4 + 12*(s.nops%2)
		vnet.ZZStamp = zzvsched.Base.Add(s.lastOpAt) // the chunk entered a router queue when the previous operation ended
		nsrc, ndst, data, ok, err := s.z.Outbound(src, dst, payload)
		vnet.ZZIPForm, vnet.ZZStamp = 0, time.Time{}
		s.lastOpAt = zzvsched.Elapsed()
		if s.cfg.oneToOne > 0 {
			// 1:1 translation keeps no state, so BFS states merge at depth 1 and the alternation above never
			// reaches the second representation: judge the same datagram in the other representation too
			obs, sig, msg := s.outbound1to1(src, dst, nsrc, ndst, data, keep, ok, err)
			if sig == "" {
				vnet.ZZIPForm = 20 - (4 + 12*(s.nops%2))
				nsrc2, ndst2, data2, ok2, err2 := s.z.Outbound(src, dst, payload)
				vnet.ZZIPForm = 0
				if _, sig2, msg2 := s.outbound1to1(src, dst, nsrc2, ndst2, data2, keep, ok2, err2); sig2 != "" {
					return obs, sig2, msg2 + " (addresses in the other slice representation)"
				}
			}
			return obs, sig, msg
		}
		if err != nil || !ok {
			liveN := 0
			for _, m := range s.byExt {
				if s.alive(m, now) != 0 {
					liveN++
				}
			}
			if liveN >= 16384 {
				// every port of the dynamic range is held by a live mapping: the datagram is dropped and
				// nothing else may have changed (the history goes on)
				return "o:exhausted", "", ""
			}
			s.dead = true
			if c02 {
				return "o:err", "C02 translation-failed", fmt.Sprintf("%v: outbound %s -> %s failed (%v, ok=%v) although only %d mappings are live and the dynamic range has 16384 ports", s.cfg, src, dst, err, ok, liveN)
			}
			return "o:err", "", ""
		}
		obs = "o:ok"
		if ndst != dst || !bytes.Equal(data, keep) {
			if c02 {
				return obs, "C02 outbound-altered", fmt.Sprintf("outbound translation changed destination or payload: %s -> %s", dst, ndst)
			}
		}
		key := depKey(s.cfg.mapping, dst)
		fk := depKey(s.cfg.filtering, dst)
		cur := s.byKey[src+"|"+key]
		st := 0
		if cur != nil {
			st = s.alive(cur, now)
		}
		if cur != nil && st == -1 {
			// at the expiry instant either answer is right: follow the implementation
			if nsrc == cur.ext {
				st = 1
			} else {
				st = 0
			}
		}
		if cur != nil && st == 1 {
			if nsrc != cur.ext {
				if c02 {
					return obs, "C02 mapping-not-stable", fmt.Sprintf("%v: %s -> %s got %s but its live mapping (last outbound %v ago) is %s", s.cfg, src, dst, nsrc, now-cur.last, cur.ext)
				}
				s.dead = true
				return obs, "", ""
			}
			cur.last = now
			cur.filters[fk] = true
			return obs, "", ""
		}
		// a new mapping: adopt the endpoint the implementation chose, then check it
		host, portS, _ := net.SplitHostPort(nsrc)
		port, _ := strconv.Atoi(portS)
		if c02 {
			if host != natRouterIP {
				return obs, "C02 foreign-external-ip", fmt.Sprintf("external address %s is not an address of the router (%s)", nsrc, natRouterIP)
			}
			if port < 1 || port > 65535 {
				return obs, "C02 invalid-port", fmt.Sprintf("external address %s has no valid UDP port", nsrc)
			}
		}
		if other, ost := s.liveByExt(nsrc, now); other != nil && ost == 1 && other != cur {
			if c02 {
				return obs, "C02 external-address-shared", fmt.Sprintf("%v: %s -> %s was given %s, which the live mapping of %s (bound %q) holds", s.cfg, src, dst, nsrc, other.internal, other.bound)
			}
			s.dead = true
			return obs, "", ""
		}
		// a dead mapping that held this endpoint is gone for good
		if old := s.byExt[nsrc]; old != nil {
			if s.byKey[old.internal+"|"+old.bound] == old {
				delete(s.byKey, old.internal+"|"+old.bound)
			}
		}
		if cur != nil && s.byExt[cur.ext] == cur {
			delete(s.byExt, cur.ext)
		}
		nm := &natMapping{internal: src, bound: key, ext: nsrc, filters: map[string]bool{fk: true}, last: now}
		s.byKey[src+"|"+key] = nm
		s.byExt[nsrc] = nm
		if !s.extSet[nsrc] {
			s.extSet[nsrc] = true
			s.exts = append(s.exts, nsrc)
		}
		return obs, "", ""
	case "I":
		src := natEP(f[1])
		var dst string
		switch {
		case f[2] == "E0x":
			// the same port as the first external endpoint, on the router's *other* address: never allocated
			_, p0, _ := net.SplitHostPort(s.exts[0])
			dst = net.JoinHostPort("1.2.3.5", p0)
		case f[2] == "EL":
			dst = s.exts[len(s.exts)-1]
		case f[2] == "EN":
			dst = natRouterIP + ":40000"
		case strings.HasPrefix(f[2], "E"):
			k, _ := strconv.Atoi(f[2][1:])
			dst = s.exts[k]
		default:
			dst = natEP(f[2])
		}
		s.nops++
		vnet.ZZIPForm = 4 + 12*(s.nops%2)
		vnet.ZZStamp = zzvsched.Base.Add(s.lastOpAt)
		var nsrc, ndst string
		var data []byte
		var err error
		if s.router != nil {
			nsrc, ndst, data, err = vnet.ZZRouterInbound(s.router, src, dst, payload)
		} else {
			nsrc, ndst, data, err = s.z.Inbound(src, dst, payload)
		}
		vnet.ZZIPForm, vnet.ZZStamp = 0, time.Time{}
		s.lastOpAt = zzvsched.Elapsed()
		if s.cfg.oneToOne > 0 {
			obs, sig, msg := s.inbound1to1(src, dst, nsrc, ndst, data, keep, err)
			if sig == "" && s.router == nil {
				vnet.ZZIPForm = 20 - (4 + 12*(s.nops%2))
				nsrc2, ndst2, data2, err2 := s.z.Inbound(src, dst, payload)
				vnet.ZZIPForm = 0
				if _, sig2, msg2 := s.inbound1to1(src, dst, nsrc2, ndst2, data2, keep, err2); sig2 != "" {
					return obs, sig2, msg2 + " (addresses in the other slice representation)"
				}
			}
			return obs, sig, msg
		}
		fwd := err == nil
		obs = fmt.Sprintf("i:%v", fwd)
		m, st := s.liveByExt(dst, now)
		want := false
		why := "no mapping owns " + dst
		if m != nil && st != 0 {
			fk := depKey(s.cfg.filtering, src)
			if m.filters[fk] {
				want = true
			} else {
				why = fmt.Sprintf("%s never sent through %s to a remote matching %q", m.internal, dst, fk)
			}
			if st == -1 {
				want = fwd // expiry instant: unconstrained
			}
		} else if m != nil {
			why = fmt.Sprintf("the mapping %s of %s has been idle for %v (lifetime %v)", dst, m.internal, now-m.last, s.cfg.life())
		}
		if fwd && !want {
			if m != nil && st == 0 {
				if c02 {
					return obs, "C02 mapping-outlived-lifetime", fmt.Sprintf("%v: inbound %s -> %s forwarded although %s", s.cfg, src, dst, why)
				}
				return obs, "C03 forwarded-without-live-mapping", fmt.Sprintf("%v: inbound %s -> %s forwarded although %s", s.cfg, src, dst, why)
			}
			if !c02 {
				return obs, "C03 forwarded-without-permission", fmt.Sprintf("%v: inbound %s -> %s forwarded although %s", s.cfg, src, dst, why)
			}
			s.dead = true
			return obs, "", ""
		}
		if !fwd && want {
			if c02 && err != nil && strings.Contains(err.Error(), "no NAT binding") {
				return obs, "C02 live-mapping-lost", fmt.Sprintf("%v: %s still holds the live mapping %s (last outbound %v ago) but inbound traffic to it finds no binding", s.cfg, m.internal, dst, now-m.last)
			}
			if !c02 {
				return obs, "C03 refused-permitted", fmt.Sprintf("%v: inbound %s -> %s refused (%v) although %s created %s and sent to a matching remote", s.cfg, src, dst, err, m.internal, dst)
			}
			s.dead = true
			return obs, "", ""
		}
		if fwd && !c02 {
			if ndst != m.internal {
				return obs, "C03 wrong-owner", fmt.Sprintf("%v: inbound %s -> %s forwarded to %s, but %s created the mapping", s.cfg, src, dst, ndst, m.internal)
			}
			if nsrc != src || !bytes.Equal(data, keep) {
				return obs, "C03 inbound-altered", fmt.Sprintf("inbound translation changed source or payload: %s -> %s", src, nsrc)
			}
		}
		return obs, "", ""
	}
	panic("bad op " + op)
}

func (s *natSys) pair(ip string, toMapped bool) string {
	for j := 0; j < s.cfg.oneToOne; j++ {
		l, m := fmt.Sprintf("10.0.0.%d", 1+j), fmt.Sprintf("1.2.3.%d", 10+j)
		if toMapped && ip == l {
			return m
		}
		if !toMapped && ip == m {
			return l
		}
	}
	return ""
}

func (s *natSys) outbound1to1(src, dst, nsrc, ndst string, data, keep []byte, ok bool, err error) (string, string, string) {
	h, p, _ := net.SplitHostPort(src)
	want := s.pair(h, true)
	if s.mode != "C02" {
		return "o", "", ""
	}
	if want == "" {
		if ok {
			return "o:fwd", "C02 1to1-unpaired-forwarded", fmt.Sprintf("outbound from unpaired local address %s was forwarded as %s", src, nsrc)
		}
		return "o:drop", "", ""
	}
	if !ok || err != nil {
		return "o:drop", "C02 1to1-dropped", fmt.Sprintf("outbound from paired local address %s was dropped (%v)", src, err)
	}
	if nsrc != net.JoinHostPort(want, p) || ndst != dst || !bytes.Equal(data, keep) {
		return "o:fwd", "C02 1to1-rewrite", fmt.Sprintf("outbound %s -> %s became %s -> %s, want source %s", src, dst, nsrc, ndst, net.JoinHostPort(want, p))
	}
	return "o:fwd", "", ""
}

func (s *natSys) inbound1to1(src, dst, nsrc, ndst string, data, keep []byte, err error) (string, string, string) {
	h, p, _ := net.SplitHostPort(dst)
	want := s.pair(h, false)
	pre := "C03"
	if s.mode == "C02" {
		pre = "C02"
	}
	if want == "" {
		if err == nil {
			if pre == "C02" {
				return "i:fwd", "", ""
			}
			return "i:fwd", "C03 1to1-unpaired-forwarded", fmt.Sprintf("inbound to unpaired address %s was forwarded to %s", dst, ndst)
		}
		return "i:drop", "", ""
	}
	if err != nil {
		return "i:drop", pre + " 1to1-dropped", fmt.Sprintf("inbound to paired external address %s was dropped (%v)", dst, err)
	}
	if ndst != net.JoinHostPort(want, p) || nsrc != src || !bytes.Equal(data, keep) {
		return "i:fwd", pre + " 1to1-rewrite", fmt.Sprintf("inbound %s -> %s became %s -> %s, want destination %s", src, dst, nsrc, ndst, net.JoinHostPort(want, p))
	}
	return "i:fwd", "", ""
}

func (s *natSys) Key() stateKey {
	if s.historyKey {
		// deep starts: dumping a 16384-entry table per state costs more than the few merges would save;
		// the state is identified by its history (no merging: an over-fine abstraction only costs time)
		h := fnv.New128a()
		for _, op := range s.hist {
			_, _ = h.Write([]byte(op))
			_, _ = h.Write([]byte{0})
		}
		sum := h.Sum(nil)
		return stateKey{binary.LittleEndian.Uint64(sum[:8]), binary.LittleEndian.Uint64(sum[8:])}
	}
	var ms []string
	for _, m := range s.byExt {
		var fs []string
		for k := range m.filters {
			fs = append(fs, k)
		}
		sort.Strings(fs)
		ms = append(ms, fmt.Sprintf("%s|%s|%s|%v|%d", m.internal, m.bound, m.ext, fs, m.last))
	}
	sort.Strings(ms)
	return dumpKey([]string{"hb", "log", "mutex"}, s.z.N, ms, s.exts, s.dead, int64(zzvsched.Elapsed()))
}

func natAlphabet(cfg natCfg) []string {
	if cfg.oneToOne > 0 {
		a := []string{"O L0a X1", "O L0b X1", "O Ua X1", "I X1 M0a", "I Z9 M0c", "I X1 MUa"}
		if cfg.oneToOne >= 2 {
			a = append(a, "O L1a X1", "I X1 M1a")
		}
		if cfg.oneToOne >= 3 {
			a = append(a, "O L2a Y1", "I Y1 M2a")
		}
		return a
	}
	var a []string
	for _, i := range []string{"A1", "A2", "B1"} {
		for _, r := range []string{"X1", "X2", "Y1"} {
			a = append(a, "O "+i+" "+r)
		}
	}
	for _, e := range []string{"E0", "E1", "E2", "EN"} {
		for _, r := range []string{"X1", "X2", "Y1", "Z9", "XP", "XQ"} {
			if (r == "XP" || r == "XQ") && e == "E2" {
				continue
			}
			a = append(a, "I "+r+" "+e)
		}
	}
	a = append(a, "T half", "T most", "T full")
	if cfg.twoIPs {
		a = append(a, "I X1 E0x", "I Z9 E0x")
	}
	return a
}

func runNAT(mode, tier string, shard, shards int, rep *SeqReport) {
	var lastOp, curFam string
	done := false
	ex := zzvsched.Run(zzvsched.Config{MaxSteps: 1 << 62, Horizon: 100000 * time.Hour, NoTick: true}, func() {
		runNATBody(mode, tier, shard, shards, rep, &lastOp, &curFam)
		done = true
	})
	if len(ex.Panics) > 0 {
		rep.violate("nat", mode+" panic", "panic: "+ex.Panics[0].Value+"\n"+ex.Panics[0].Stack, curFam+" ... "+lastOp)
	} else if !done {
		rep.violate("nat", mode+" operation-blocked", "a translator operation blocked: "+fmt.Sprint(ex.Parked), curFam+" ... "+lastOp)
	}
}

func runNATBody(mode, tier string, shard, shards int, rep *SeqReport, lastOp, curFam *string) {
	thorough := tier == "thorough"
	unit := 0
	mine := func() bool { unit++; return (unit-1)%shards == shard }
	var cfgs []natCfg
	for m := vnet.EndpointIndependent; m <= vnet.EndpointAddrPortDependent; m++ {
		for f := vnet.EndpointIndependent; f <= vnet.EndpointAddrPortDependent; f++ {
			cfgs = append(cfgs, natCfg{mapping: m, filtering: f})
			cfgs = append(cfgs, natCfg{mapping: m, filtering: f, lifetime: 100 * time.Millisecond})
		}
	}
	for k := 1; k <= 3; k++ {
		cfgs = append(cfgs, natCfg{oneToOne: k})
	}
	cfgs = append(cfgs, natCfg{mapping: vnet.EndpointIndependent, filtering: vnet.EndpointIndependent, twoIPs: true},
		natCfg{mapping: vnet.EndpointAddrPortDependent, filtering: vnet.EndpointAddrDependent, twoIPs: true},
		natCfg{mapping: vnet.EndpointIndependent, filtering: vnet.EndpointAddrPortDependent, pairedLocal: true},
		natCfg{mapping: vnet.EndpointAddrDependent, filtering: vnet.EndpointAddrDependent, twoIPs: true, pairedLocal: true},
		natCfg{mapping: vnet.EndpointIndependent, filtering: vnet.EndpointIndependent, portPres: true},
		natCfg{mapping: vnet.EndpointAddrPortDependent, filtering: vnet.EndpointAddrPortDependent, portPres: true, lifetime: 100 * time.Millisecond})
	depth, maxStates := 5, int64(100000)
	if thorough {
		depth, maxStates = 7, 600000
	}
	for _, cfg := range cfgs {
		if !mine() {
			continue
		}
		cfg := cfg
		alpha := natAlphabet(cfg)
		*curFam = "bfs " + cfg.String()
		r := bfs("nat "+cfg.String(), func() seqSystem { return newNatSys(mode, cfg, alpha, lastOp) }, nil, depth, maxStates, rep)
		rep.family("table-bfs", r.transitions)
	}
	// table keys are built from texts: internal endpoints and remotes whose concatenations collide
	// ("10.0.0.1:50"+"15.5.5.5..." vs "10.0.0.1:501"+"5.5.5.5...") under the mapping behaviours that key on the remote
	for _, cfg := range []natCfg{{mapping: vnet.EndpointAddrDependent, filtering: vnet.EndpointIndependent}, {mapping: vnet.EndpointAddrPortDependent, filtering: vnet.EndpointAddrPortDependent},
		{mapping: vnet.EndpointIndependent, filtering: vnet.EndpointAddrDependent}} {
		if !mine() {
			continue
		}
		cfg := cfg
		alpha := []string{"O C1 Z1", "O C2 X1", "O C1 X1", "O C2 Z1", "I Z1 E0", "I X1 E0", "I X1 E1", "I Z1 E1", "T full"}
		*curFam = "colliding-texts " + cfg.String()
		d := 4
		if thorough {
			d = 5
		}
		r := bfs("nat-colliding-texts "+cfg.String(), func() seqSystem { return newNatSys(mode, cfg, alpha, lastOp) }, nil, d, maxStates, rep)
		rep.family("colliding-key-texts", r.transitions)
	}
	// deep starts: the dynamic port range (16384 ports) nearly / exactly / over full, live and expired
	// (one with mapping == filtering behaviour, one where they differ: the table keys of the two directions then differ)
	deepCfgs := []natCfg{{mapping: vnet.EndpointIndependent, filtering: vnet.EndpointIndependent, lifetime: 100 * time.Millisecond},
		{mapping: vnet.EndpointIndependent, filtering: vnet.EndpointAddrPortDependent, lifetime: 100 * time.Millisecond}}
	if thorough {
		deepCfgs = append(deepCfgs, natCfg{mapping: vnet.EndpointAddrDependent, filtering: vnet.EndpointAddrDependent},
			natCfg{mapping: vnet.EndpointAddrPortDependent, filtering: vnet.EndpointAddrPortDependent},
			natCfg{mapping: vnet.EndpointAddrPortDependent, filtering: vnet.EndpointIndependent, lifetime: 100 * time.Millisecond})
	}
	for _, cfg := range deepCfgs {
		ns := []int{16383, 16384}
		if thorough {
			ns = []int{16382, 16383, 16384}
		}
		for _, n := range ns {
			for _, expired := range []bool{false, true} {
				if !mine() {
					continue
				}
				cfg := cfg
				var prefix []string
				for i := 0; i < n; i++ {
					prefix = append(prefix, fmt.Sprintf("O P%d X1", i))
				}
				if expired {
					prefix = append(prefix, "T full")
				}
				// P0 = the endpoint that created the very first mapping of the bulk prefix sends again;
				// EL = the external endpoint seen last
				alpha := []string{"O A1 X1", "O P0 X1", "I X1 E0", "I X1 EL", "T full"}
				d := 3
				if thorough {
					alpha = append(alpha, "O A2 X1", "O B1 Y1", "I Z9 E0", "O P1 X1")
				}
				*curFam = fmt.Sprintf("deep %s n=%d expired=%v", cfg, n, expired)
				r := bfs(fmt.Sprintf("nat-deep %s n=%d expired=%v", cfg, n, expired), func() seqSystem { n := newNatSys(mode, cfg, alpha, lastOp); n.historyKey = true; return n }, prefix, d, 3000, rep)
				rep.family("port-range-deep-start", r.transitions)
			}
		}
	}
	// the same full range behind a real LAN router: inbound datagrams enter through Router.onInboundChunk, so
	// whatever the router does before asking its translator is covered, up to the last port of the range
	{
		for _, cfg := range []natCfg{{mapping: vnet.EndpointIndependent, filtering: vnet.EndpointIndependent, viaRouter: true},
			{mapping: vnet.EndpointIndependent, filtering: vnet.EndpointAddrPortDependent, viaRouter: true}} {
			if !mine() {
				continue
			}
			cfg := cfg
			var prefix []string
			for i := 0; i < 16384; i++ {
				prefix = append(prefix, fmt.Sprintf("O P%d X1", i))
			}
			alpha := []string{"I X1 E0", "I X1 EL", "I Z9 EL", "I Z9 E0", "O P0 X1"}
			*curFam = "deep via router " + cfg.String()
			r := bfs("nat-deep-via-router "+cfg.String(), func() seqSystem { n := newNatSys(mode, cfg, alpha, lastOp); n.historyKey = true; return n }, prefix, 2, 3000, rep)
			rep.family("port-range-deep-start-via-router", r.transitions)
		}
	}
	// deep start with a table of MIXED age: the range is filled, the mappings on its first and last port are
	// refreshed, everything else expires, and the freed ports in between are given to new endpoints - the range
	// is full again, the allocation position stands just below the top, and the ports at both ends of the range
	// are held by old-but-live mappings
	mixedCfgs := []natCfg{{mapping: vnet.EndpointIndependent, filtering: vnet.EndpointIndependent, lifetime: 100 * time.Millisecond}}
	if thorough {
		mixedCfgs = append(mixedCfgs, natCfg{mapping: vnet.EndpointIndependent, filtering: vnet.EndpointAddrPortDependent, lifetime: 100 * time.Millisecond})
	}
	for _, cfg := range mixedCfgs {
		refills, md := []int{16382}, 2
		if thorough {
			refills, md = []int{16381, 16382}, 3
		}
		for _, refill := range refills {
			if !mine() {
				continue
			}
			cfg := cfg
			var prefix []string
			for i := 0; i < 16384; i++ {
				prefix = append(prefix, fmt.Sprintf("O P%d X1", i))
			}
			prefix = append(prefix, "T half", "O P16383 X1", "O P0 X1", "T half", "T half")
			for i := 0; i < refill; i++ {
				prefix = append(prefix, fmt.Sprintf("O P%d X1", 16384+i))
			}
			alpha := []string{"O A1 X1", "O A2 X1", "O P0 X1", "I X1 E0", "I X1 EL"}
			*curFam = fmt.Sprintf("deep-mixed %s refill=%d", cfg, refill)
			r := bfs(fmt.Sprintf("nat-deep-mixed %s refill=%d", cfg, refill), func() seqSystem { n := newNatSys(mode, cfg, alpha, lastOp); n.historyKey = true; return n }, prefix, md, 3000, rep)
			rep.family("port-range-deep-start-mixed-age", r.transitions)
		}
	}
}

func init() {
	assume := []string{"3 internal endpoints (two sharing an IP), 4 remotes (two sharing an IP, one never contacted), lifetimes {30 s, 100 ms}",
		"time advances only by lifetime/2-1ms and lifetime+1ms steps, so no probe lands within 1 us of an expiry instant (left unconstrained by the property)",
		"allocation is 'some fresh endpoint': the model adopts the port the implementation chose and checks validity, ownership and uniqueness"}
	rule := "explicit-state BFS (depth 5 quick / 7 thorough, states merged on a reflective dump of the translator + model) over {outbound i->r, inbound r->e for every external endpoint seen so far and a never-allocated one, advance half / full lifetime} for all 9 mapping x filtering behaviours x 2 lifetimes and 1:1 mode with 1..3 IP pairs, from the empty table, from deep starts with 16382/16383/16384 live (and expired) mappings, from a full table of mixed age, over endpoints whose concatenated address texts collide, and with the full range behind a real LAN router (inbound through Router.onInboundChunk) (both end ports old-but-live, the middle re-allocated after expiry); every translation result is compared with an RFC 4787 table model; the IPv4 addresses of successive datagrams alternate between 4-byte and 16-byte representation, and every chunk carries the instant of the previous datagram as its router-queue timestamp (time steps lie in between)"
	register(&Check{ID: "C02", Seq: func(t string, k, n int, r *SeqReport) { runNAT("C02", t, k, n, r) }, Rule: rule, Assumptions: assume})
	register(&Check{ID: "C03", Seq: func(t string, k, n int, r *SeqReport) { runNAT("C03", t, k, n, r) }, Rule: rule, Assumptions: assume})
}
