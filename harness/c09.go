package main

import (
	"fmt"
	"time"

	"github.com/pion/transport/v3/deadline"
	"github.com/pion/transport/v3/zzvsched"
	"verifharness/explore"
)

// C09 — Deadline fires exactly when the latest set time passes, never from a
// stale timer.  The script of Set calls is a data choice of the explorer; timer
// expiries and the (separately scheduled) timer callbacks are placed at every
// scheduling point within the deviation bound.

// "+3ns": so near that the clock (1 ns per reading) is past it before the runtime has dispatched the expiry
var c09sets = []string{"zero", "zero(local)", "past", "+5ms", "+10ms", "+20ms", "+400y", "+3ns"}

func c09scenario(steps, bound int, gaps bool, yieldOnRelease ...bool) *explore.Scenario {
	name := fmt.Sprintf("deadline %d sets", steps)
	if gaps {
		name += " +gaps"
	}
	sc := &explore.Scenario{Name: name, Bound: bound}
	if len(yieldOnRelease) > 0 && yieldOnRelease[0] {
		// what Set and the expiry callback do after giving up the mutex is interleaved too
		sc.Name += ", yield after unlock"
		sc.Cfg.YieldOnRelease = true
	}
	sc.Cfg.Horizon = 10 * time.Second
	sc.Make = func() (func(), func(*zzvsched.Exec) (string, *explore.Violation)) {
		var viol *explore.Violation
		var script []string
		finished := false
		finalSignalled, finalWant := false, false
		fail := func(sig, format string, a ...any) {
			if viol == nil {
				viol = &explore.Violation{Sig: sig, Msg: fmt.Sprintf("script %v: ", script) + fmt.Sprintf(format, a...)}
			}
		}
		body := func() {
			d := deadline.New()
			var last time.Time // most recent Set
			closedCh := func(ch <-chan struct{}) bool {
				return zzvsched.Select(true, zzvsched.NewRecv(ch)) == 0
			}
			obs := func(when string) (signalled bool) {
				ch := d.Done()
				closed := closedCh(ch)
				err := d.Err()
				dl, ok := d.Deadline()
				now := zzvsched.Base.Add(zzvsched.Elapsed())
				if closed || err != nil {
					if last.IsZero() {
						fail("C09 signalled-without-deadline", "%s: signalled (Done closed=%v, Err=%v) although the latest Set cancelled the deadline", when, closed, err)
					} else if last.After(now) {
						fail("C09 signalled-early", "%s: signalled (Done closed=%v, Err=%v) at %v, but the latest Set is %v", when, closed, err, now.Sub(zzvsched.Base), last.Sub(zzvsched.Base))
					}
				}
				if !dl.Equal(last) || ok != !last.IsZero() {
					fail("C09 deadline-value", "%s: Deadline() = (%v,%v), latest Set %v", when, dl, ok, last)
				}
				return closed && err != nil
			}
			for i := 0; i < steps; i++ {
				k := zzvsched.Choose(len(c09sets))
				script = append(script, c09sets[k])
				var t time.Time
				switch c09sets[k] {
				case "zero":
				case "zero(local)":
					t = time.Time{}.Local() // the zero instant spelled with a location: still "no deadline"
				case "past":
					t = zzvsched.Now().Add(-time.Millisecond)
				case "+5ms":
					t = zzvsched.Now().Add(5 * time.Millisecond)
				case "+10ms":
					t = zzvsched.Now().Add(10 * time.Millisecond)
				case "+20ms":
					t = zzvsched.Now().Add(20 * time.Millisecond)
				case "+400y":
					t = zzvsched.Base.AddDate(400, 0, 0) // further away than a time.Duration can express
				}
				d.Set(t)
				last = t
				sig := obs(fmt.Sprintf("right after Set #%d", i+1))
				if c09sets[k] == "past" && !sig {
					// a passed time must be signalled by Set itself
					fail("C09 past-not-signalled", "Set(past) #%d returned without signalling", i+1)
				}
				if gaps && i+1 < steps {
					switch zzvsched.Choose(3) {
					case 1:
						script = append(script, "sleep7ms")
						zzvsched.Sleep(7 * time.Millisecond)
					case 2:
						script = append(script, "sleep12ms")
						zzvsched.Sleep(12 * time.Millisecond)
					}
					obs(fmt.Sprintf("before Set #%d", i+2))
				}
			}
			zzvsched.SleepIdle(time.Millisecond)
			obs("1 ms after the last Set, all callbacks run")
			zzvsched.SleepIdle(100 * time.Millisecond)
			finalSignalled = obs("at quiescence")
			finalWant = !last.IsZero() && last.Sub(zzvsched.Base) < 100*365*24*time.Hour && last.Year() < 2300
			if finalWant && !finalSignalled {
				ch := d.Done()
				fail("C09 not-signalled", "at quiescence, 100 ms later: the latest Set (%v) has passed but Done closed=%v Err=%v", last.Sub(zzvsched.Base), closedCh(ch), d.Err())
			}
			finished = true
		}
		check := func(ex *zzvsched.Exec) (string, *explore.Violation) {
			out := fmt.Sprintf("%v signalled=%v", script, finalSignalled)
			if len(ex.Panics) > 0 {
				return out, &explore.Violation{Msg: fmt.Sprintf("script %v: panic: %s\n%s", script, ex.Panics[0].Value, ex.Panics[0].Stack), Sig: "C09 panic"}
			}
			if viol != nil {
				return out, viol
			}
			if ex.HorizonHit {
				return out + " HORIZON", nil
			}
			if !finished {
				return out, &explore.Violation{Msg: fmt.Sprintf("script %v: main thread blocked: %v", script, ex.Parked), Sig: "C09 blocked"}
			}
			if len(ex.Parked) > 0 {
				return out, &explore.Violation{Msg: fmt.Sprintf("script %v: a timer callback never finished: %v", script, ex.Parked), Sig: "C09 callback-stuck"}
			}
			return out, nil
		}
		return body, check
	}
	return sc
}

// c09concurrent: two threads call Set at the same time (each one value of the menu), then - everything settled -
// a last Set(+10 ms) is made: whichever of the two concurrent calls took effect last, the deadline reported
// is one of the two, nothing is signalled before its time, and the last deadline fires.
func c09concurrent(bound int) *explore.Scenario {
	sc := &explore.Scenario{Name: "deadline: two concurrent Sets, then a last one", Bound: bound}
	sc.Cfg.Horizon = 10 * time.Second
	sc.Cfg.YieldOnRelease = true
	menu := []string{"zero", "+5ms", "+10ms", "past"}
	sc.Make = func() (func(), func(*zzvsched.Exec) (string, *explore.Violation)) {
		var viol *explore.Violation
		var script []string
		finished, finalSignalled := false, false
		fail := func(sig, format string, a ...any) {
			if viol == nil {
				viol = &explore.Violation{Sig: sig, Msg: fmt.Sprintf("concurrent Sets %v: ", script) + fmt.Sprintf(format, a...)}
			}
		}
		body := func() {
			d := deadline.New()
			if zzvsched.Choose(2) == 1 {
				// an earlier deadline: the runtime timer exists already and is armed when the two calls race
				script = append(script, "first:+20ms")
				d.Set(zzvsched.Base.Add(20 * time.Millisecond))
			}
			var vals [2]time.Time
			for i := 0; i < 2; i++ {
				k := zzvsched.Choose(len(menu))
				script = append(script, menu[k])
				switch menu[k] {
				case "+5ms":
					vals[i] = zzvsched.Base.Add(5 * time.Millisecond)
				case "+10ms":
					vals[i] = zzvsched.Base.Add(10 * time.Millisecond)
				case "past":
					vals[i] = zzvsched.Base.Add(-time.Millisecond)
				}
			}
			for i := 0; i < 2; i++ {
				i := i
				zzvsched.GoNamed(fmt.Sprintf("setter%d", i), func() { d.Set(vals[i]) })
			}
			zzvsched.WaitIdle()
			dl, ok := d.Deadline()
			if !(dl.Equal(vals[0]) && ok == !vals[0].IsZero()) && !(dl.Equal(vals[1]) && ok == !vals[1].IsZero()) {
				fail("C09 deadline-value", "after both calls returned Deadline() = (%v,%v), neither of the two values set", dl, ok)
			}
			closed := zzvsched.Select(true, zzvsched.NewRecv(d.Done())) == 0
			err := d.Err()
			now := zzvsched.Base.Add(zzvsched.Elapsed()) // read AFTER the observations: a stalled thread may have let time pass
			if (closed || err != nil) && (dl.IsZero() || dl.After(now)) {
				fail("C09 signalled-early", "signalled (Done closed=%v, Err=%v) no later than %v although the deadline in force is %v", closed, err, now.Sub(zzvsched.Base), dl)
			}
			last := zzvsched.Now().Add(10 * time.Millisecond)
			d.Set(last)
			zzvsched.SleepIdle(100 * time.Millisecond)
			finalSignalled = zzvsched.Select(true, zzvsched.NewRecv(d.Done())) == 0 && d.Err() != nil
			if !finalSignalled {
				fail("C09 not-signalled", "a last Set(+10 ms) after the two concurrent calls was never signalled (100 ms later: Err=%v)", d.Err())
			}
			finished = true
		}
		check := func(ex *zzvsched.Exec) (string, *explore.Violation) {
			out := fmt.Sprintf("%v signalled=%v", script, finalSignalled)
			if len(ex.Panics) > 0 {
				return out, &explore.Violation{Msg: fmt.Sprintf("concurrent Sets %v: panic: %s\n%s", script, ex.Panics[0].Value, ex.Panics[0].Stack), Sig: "C09 panic"}
			}
			if viol != nil {
				return out, viol
			}
			if ex.HorizonHit {
				return out + " HORIZON", nil
			}
			if !finished {
				return out, &explore.Violation{Msg: fmt.Sprintf("concurrent Sets %v: main thread blocked: %v", script, ex.Parked), Sig: "C09 blocked"}
			}
			return out, nil
		}
		return body, check
	}
	return sc
}

func init() {
	register(&Check{ID: "C09", YieldOnRelease: true,
		Scenarios: func(tier string) []*explore.Scenario {
			if tier == "quick" {
				return []*explore.Scenario{c09scenario(3, 2, false), c09scenario(2, 2, true), c09scenario(2, 2, true, true), c09concurrent(2)}
			}
			// bound -1 = unbounded: the happens-before state cache closes the whole interleaving space
			return []*explore.Scenario{c09scenario(4, 2, false), c09scenario(3, -1, false), c09scenario(3, 2, true), c09scenario(2, -1, true), c09scenario(2, 3, true, true), c09scenario(3, 2, false, true), c09concurrent(3)}
		},
		Rule: "all scripts of Set(zero|zero carrying a location|past|+5ms|+10ms|+20ms|+400 years|+3ns) of the stated length (optionally separated by 0/7/12 ms sleeps) x every placement, within the deviation bound, of timer expiries and of the separately scheduled timer callbacks (so up to 3 dispatched-but-not-run callbacks are outstanding); Done/Err/Deadline observed after every Set, before the next one, 1 ms after the last one and at quiescence 100 ms later; one family additionally has a scheduling point after every unlock; plus two threads calling Set at the same time, followed by a last Set that must fire",
		Assumptions: []string{"the runtime timer is modelled: expiry dispatches the callback as a new thread whose first lock acquisition is a scheduling point; Stop reports whether the expiry had not been dispatched yet",
			"signalled-ness is judged strictly (never before the latest Set's time); being signalled is required only at quiescence"}})
}
