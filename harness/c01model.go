package main

import (
	"fmt"
	"net"
	"strconv"
	"strings"

	"github.com/pion/transport/v3/vnet"
)

// Reference model for C01: a routing tree with an RFC 4787 table at every NAT.
// It computes the fate of one datagram (which socket receives it, showing which
// source) by walking the tree.  External ports are "some fresh port": a new
// mapping gets a symbolic port "?k" that is bound to the concrete port the first
// time a socket observes it.

type mSock struct {
	id     int
	host   *mHost
	lip    string // "0.0.0.0" = wildcard
	port   int
	remote string // connected sockets
	name   string
}

type mHost struct {
	name   string
	ips    []string
	router *mRouter
	socks  []*mSock
}

type mMapping struct {
	internal, bound string
	ext             string // "ip:port" or "ip:?k"
	filters         map[string]bool
}

type mNAT struct {
	oneToOne      bool
	mapB, filtB   vnet.EndpointDependencyType
	mapped, local []string
	maps          []*mMapping
}

type mRouter struct {
	name   string
	cidr   *net.IPNet
	parent *mRouter
	nat    *mNAT
	hosts  map[string]*mHost   // by IP
	kids   map[string]*mRouter // by IP on this network
	ips    []string            // its addresses on the parent network
}

type mWorld struct {
	syms int
	// resolution of symbolic ports
	bind  map[string]string // "?k" -> concrete port
	symIP map[string]string // "?k" -> external IP of the mapping
}

func (w *mWorld) fresh(ip string) string {
	w.syms++
	s := fmt.Sprintf("?%d", w.syms)
	w.symIP[s] = ip
	return s
}

func (w *mWorld) resolve(ep string) string {
	i := strings.LastIndexByte(ep, ':')
	if i >= 0 && strings.HasPrefix(ep[i+1:], "?") {
		if p, ok := w.bind[ep[i+1:]]; ok {
			return ep[:i+1] + p
		}
	}
	return ep
}

// same reports whether two endpoint strings denote the same endpoint (after resolution).
func (w *mWorld) same(a, b string) bool { return w.resolve(a) == w.resolve(b) }

func splitEP(ep string) (string, string) {
	i := strings.LastIndexByte(ep, ':')
	return ep[:i], ep[i+1:]
}

func depKeyEP(d vnet.EndpointDependencyType, ep string) string {
	switch d {
	case vnet.EndpointIndependent:
		return ""
	case vnet.EndpointAddrDependent:
		h, _ := splitEP(ep)
		return h
	}
	return ep
}

func (n *mNAT) outbound(w *mWorld, src, dst string) (string, bool) {
	if n.oneToOne {
		h, p := splitEP(src)
		for i, l := range n.local {
			if l == h {
				return n.mapped[i] + ":" + p, true
			}
		}
		return "", false
	}
	key := depKeyEP(n.mapB, w.resolve(dst))
	fk := depKeyEP(n.filtB, w.resolve(dst))
	for _, m := range n.maps {
		if w.same(m.internal, src) && m.bound == key {
			m.filters[fk] = true
			return m.ext, true
		}
	}
	m := &mMapping{internal: src, bound: key, ext: n.mapped[0] + ":" + w.fresh(n.mapped[0]), filters: map[string]bool{fk: true}}
	n.maps = append(n.maps, m)
	return m.ext, true
}

func (n *mNAT) inbound(w *mWorld, src, dst string) (string, bool) {
	if n.oneToOne {
		h, p := splitEP(dst)
		for i, m := range n.mapped {
			if m == h {
				return n.local[i] + ":" + p, true
			}
		}
		return "", false
	}
	for _, m := range n.maps {
		if w.same(m.ext, dst) {
			if m.filters[depKeyEP(n.filtB, w.resolve(src))] {
				return m.internal, true
			}
			return "", false
		}
	}
	return "", false
}

type fate struct {
	sock *mSock // nil: dropped
	src  string // source shown (possibly symbolic)
	why  string
}

// cover finds the open socket of h that covers (ip, port).
func (h *mHost) cover(ip string, port int) *mSock {
	for _, s := range h.socks {
		if s.port == port && (s.lip == "0.0.0.0" || s.lip == ip) {
			return s
		}
	}
	return nil
}

func (h *mHost) owns(ip string) bool {
	for _, x := range h.ips {
		if x == ip {
			return true
		}
	}
	return false
}

// send computes where a datagram written on socket s to dst ends up.
func (w *mWorld) send(s *mSock, dst string) fate {
	dstIP, dstPortS := splitEP(w.resolve(dst))
	if strings.HasPrefix(dstPortS, "?") {
		return fate{why: "destination port never observed"}
	}
	dport, _ := strconv.Atoi(dstPortS)
	h := s.host
	srcIP := s.lip
	loop := strings.HasPrefix(dstIP, "127.")
	if srcIP == "0.0.0.0" {
		if loop {
			srcIP = "127.0.0.1"
		} else {
			srcIP = h.ips[0]
		}
	}
	src := fmt.Sprintf("%s:%d", srcIP, s.port)
	deliver := func(hh *mHost, ip string, from string) fate {
		k := hh.cover(ip, dport)
		if k == nil {
			return fate{why: "no open socket covers " + ip + ":" + dstPortS + " on " + hh.name}
		}
		if k.remote != "" && !w.same(k.remote, from) {
			return fate{why: "connected socket discards foreign source"}
		}
		return fate{sock: k, src: from}
	}
	if loop {
		if dstIP != "127.0.0.1" {
			return fate{why: "only 127.0.0.1 is configured on lo"}
		}
		return deliver(h, dstIP, src)
	}
	r := h.router
	cur := dstIP + ":" + dstPortS
	for hops := 0; hops < 12; hops++ {
		ip, _ := splitEP(cur)
		if r.cidr.Contains(net.ParseIP(ip)) {
			if hh, ok := r.hosts[ip]; ok {
				return deliver(hh, ip, src)
			}
			if kid, ok := r.kids[ip]; ok {
				nd, ok := kid.nat.inbound(w, src, cur)
				if !ok {
					return fate{why: "NAT of " + kid.name + " refuses " + src + " -> " + cur}
				}
				// the internal endpoint may itself be the (not yet observed, symbolic) external
				// endpoint of an inner NAT: routing only needs its IP, NAT look-ups compare symbolically
				cur = w.resolve(nd)
				_, ps := splitEP(cur)
				if !strings.HasPrefix(ps, "?") {
					dport, _ = strconv.Atoi(ps)
				}
				dstPortS = ps
				r = kid
				continue
			}
			return fate{why: "no NIC holds " + ip + " on " + r.name}
		}
		if r.parent == nil {
			return fate{why: "no route to " + ip + " from the root"}
		}
		ns, ok := r.nat.outbound(w, src, cur)
		if !ok {
			return fate{why: "1:1 NAT of " + r.name + " has no pairing for " + src}
		}
		src = ns
		r = r.parent
	}
	return fate{why: "routing loop"}
}

// observe binds the symbolic port of an expected source to the concrete one seen.
// It reports false when the two cannot denote the same endpoint.
func (w *mWorld) observe(expected, seen string) (bool, string) {
	e := w.resolve(expected)
	eh, ep := splitEP(e)
	sh, sp := splitEP(seen)
	if eh != sh {
		return false, fmt.Sprintf("source IP %s, the model expects %s", sh, eh)
	}
	if strings.HasPrefix(ep, "?") {
		// a fresh external port: any valid port that no other mapping of that address shows
		p, _ := strconv.Atoi(sp)
		if p < 1 || p > 65535 {
			return false, "invalid source port " + sp
		}
		for sym, c := range w.bind {
			if c == sp && sym != ep && w.symIP[sym] == eh {
				return false, fmt.Sprintf("external address %s is shown by two different NAT mappings", seen)
			}
		}
		w.bind[ep] = sp
		return true, ""
	}
	if ep != sp {
		return false, fmt.Sprintf("source %s, the model expects %s", seen, e)
	}
	return true, ""
}
