#!/bin/bash
# mkmut.sh <name> <file> <old> <new> : create mutants/<name>.diff replacing the single occurrence of <old> in /repo/<file>
python3 - "$@" <<'PY'
import sys,subprocess,os,shutil
name,f,old,new=sys.argv[1:5]
src=open('/repo/'+f).read()
assert src.count(old)==1,(name,src.count(old))
shutil.rmtree('/tmp/mk',ignore_errors=True)
os.makedirs('/tmp/mk/a/'+os.path.dirname(f),exist_ok=True); os.makedirs('/tmp/mk/b/'+os.path.dirname(f),exist_ok=True)
open('/tmp/mk/a/'+f,'w').write(src); open('/tmp/mk/b/'+f,'w').write(src.replace(old,new))
d=subprocess.run(['diff','-u','a/'+f,'b/'+f],cwd='/tmp/mk',capture_output=True,text=True).stdout
os.makedirs(os.path.dirname('/verif/mutants/'+name),exist_ok=True)
open('/verif/mutants/'+name+'.diff','w').write(d)
shutil.rmtree('/tmp/mk',ignore_errors=True)
PY
